"""The worker-pool model of C14, twice: (1) TLC on models/PoolMap.tla, whose dumped state graph
provides states, transitions and - through the history variable `done` - every feasible completion
order; (2) a ten-line Python enumerator of the same transition system used to cross-check TLC's
numbers (and as a fallback when TLC is not on PATH, which is then reported in the evidence)."""
import os
import re
import shutil
import subprocess
import tempfile

VERIF = os.path.dirname(os.path.dirname(os.path.abspath(__file__)))


def python_model(N, W):
    """explicit-state exploration; returns (n_states, n_transitions, sorted list of terminal done-tuples)"""
    init = (1, frozenset(), ())
    seen = {init}
    frontier = [init]
    trans = 0
    terminal = []
    while frontier:
        nxt, running, done = frontier.pop()
        succ = []
        if nxt <= N and len(running) < W:
            succ.append((nxt + 1, running | {nxt}, done))
        else:
            for t in sorted(running):
                succ.append((nxt, running - {t}, done + (t,)))
        if not succ:
            terminal.append(done)
        for s in succ:
            trans += 1
            if s not in seen:
                seen.add(s)
                frontier.append(s)
    return len(seen), trans, sorted(terminal)


def tlc_model(N, W, workdir=None):
    """returns dict(states, transitions, orders, wall) from TLC's dumped state graph, or None if TLC is unavailable"""
    if not shutil.which("tlc"):
        return None
    d = tempfile.mkdtemp(prefix="tlc_", dir=workdir)
    try:
        shutil.copy(os.path.join(VERIF, "models", "PoolMap.tla"), d)
        with open(os.path.join(d, "PoolMap.cfg"), "w") as f:
            f.write("CONSTANTS N = %d\n W = %d\nSPECIFICATION Spec\nINVARIANT FifoDispatch\nINVARIANT SlotBound\nINVARIANT NoDouble\n" % (N, W))
        r = subprocess.run(
            ["tlc", "-workers", "1", "-noGenerateSpecTE", "-deadlock", "-metadir", os.path.join(d, "meta"), "-dump", "dot,actionlabels", "graph", "PoolMap.tla"],
            cwd=d, capture_output=True, text=True, timeout=600,
        )
        out = r.stdout
        if "No error has been found" not in out:
            raise RuntimeError("TLC reported a problem with the pool model:\n" + out[-3000:])
        m = re.search(r"(\d+) states generated, (\d+) distinct states found", out)
        dot = open(os.path.join(d, "graph.dot")).read()
        nodes = {}
        for mm in re.finditer(r'^(-?\d+) \[label="([^"]*)"', dot, re.M):
            nodes[mm.group(1)] = mm.group(2)
        edges = re.findall(r'^(-?\d+) -> (-?\d+) \[label="(\w+)"', dot, re.M)
        has_out = {a for a, b, _ in edges}
        orders = []
        for nid, lab in nodes.items():
            if nid not in has_out:
                dm = re.search(r"done = <<([^>]*)>>", lab)
                orders.append(tuple(int(x) for x in dm.group(1).split(",") if x.strip()))
        labels = {}
        for _, _, l in edges:
            labels[l] = labels.get(l, 0) + 1
        return {"states": int(m.group(2)), "transitions": len(edges), "orders": sorted(orders), "action_counts": labels}
    finally:
        shutil.rmtree(d, ignore_errors=True)
