"""Runner core for the BLDFM bounded-exhaustive checks.

A check module (vf/checks/cNN.py) exposes

    PROPERTY = "C16"
    LEVEL    = "exploration" | "model_checking"
    def run(ctx): ...            # enumerates cases, calls ctx.run_cases(...)

Case functions are top-level functions of the check module taking ONE
JSON-serialisable argument (the case) and returning a dict

    {"v":  [ {"sub": str, "sig": str, "msg": str}, ... ],   # violations
     "nt": bool | int,        # non-trivial by the check's rule (int: several)
     "key": str (optional),   # identity used for "distinct" (default: the case)
     "n":  int (optional),    # library executions performed inside the case
     "obs": anything small (optional, goes into evidence samples)}

Because cases are plain data and case functions are importable by name, every
violation can be written to replays/<id>/<hash>.json and re-executed without
the explorer:  ./check C16 --replay replays/C16/<hash>.json
"""

import fnmatch
import hashlib
import importlib
import json
import multiprocessing as mp
import os
import shutil
import subprocess
import sys
import tempfile
import time
import traceback

VERIF = os.path.dirname(os.path.dirname(os.path.abspath(__file__)))
REPO = os.environ.get("VERIF_REPO", "/repo")
SRC = os.path.join(REPO, "src")
NPROC = int(os.environ.get("VERIF_NPROC", "16"))


class HarnessError(Exception):
    """The harness itself (not the property) is broken: exit 2, no VIOLATION."""


def setup_paths():
    import logging

    logging.getLogger("bldfm").setLevel(logging.ERROR)
    if SRC not in sys.path[:1]:
        sys.path.insert(0, SRC)
    if VERIF not in sys.path:
        sys.path.insert(1, VERIF)


def assert_repo():
    import bldfm

    f = os.path.realpath(bldfm.__file__)
    if not f.startswith(os.path.realpath(SRC) + os.sep):
        raise HarnessError("bldfm imported from %s, not from %s" % (f, SRC))


def canon(obj):
    return json.dumps(obj, sort_keys=True, default=_jd)


def _jd(o):
    try:
        import numpy as np

        if isinstance(o, np.generic):
            return o.item()
        if isinstance(o, np.ndarray):
            return o.tolist()
    except Exception:
        pass
    if isinstance(o, (set, frozenset)):
        return sorted(o)
    if isinstance(o, tuple):
        return list(o)
    return repr(o)


def case_hash(obj):
    return hashlib.sha256(canon(obj).encode()).hexdigest()[:16]


def case_rng(seed, case, salt=0):
    """Deterministic numbers for *values the property says are irrelevant*."""
    import numpy as np

    h = int(hashlib.sha256(canon(case).encode()).hexdigest()[:12], 16)
    return np.random.default_rng([int(seed) & 0xFFFFFFFF, h, salt])


def _lib_raised(tb_text):
    return (os.sep + "bldfm" + os.sep) in tb_text


_WORKER_TMP = None


def _worker_init(tmp_root):
    global _WORKER_TMP
    d = tempfile.mkdtemp(prefix="w%d_" % os.getpid(), dir=tmp_root)
    os.chdir(d)
    _WORKER_TMP = d
    # cases may call the library's own process pools (run_bldfm_parallel); multiprocessing forbids that in daemonic workers
    try:
        mp.current_process()._config["daemon"] = False
    except Exception:
        pass


def _call(job):
    modname, fnname, case = job
    try:
        mod = importlib.import_module(modname)
        res = getattr(mod, fnname)(case)
        if res is None:
            res = {}
        res.setdefault("v", [])
        res.setdefault("nt", True)
        return res
    except HarnessError as e:
        return {"harness_error": "%s\n%s" % (e, traceback.format_exc())}
    except Exception as e:  # noqa
        tb = traceback.format_exc()
        if _lib_raised(tb):
            return {
                "v": [
                    {
                        "sub": "exception",
                        "sig": "exception/%s" % type(e).__name__,
                        "msg": "library raised %s: %s" % (type(e).__name__, e),
                        "tb": tb[-1500:],
                    }
                ],
                "nt": True,
            }
        return {"harness_error": tb}


class Ctx:
    def __init__(self, prop, level, tier, seed):
        self.prop = prop
        self.level = level
        self.tier = tier
        self.seed = seed
        self.t0 = time.time()
        self.evaluations = 0
        self.cases = 0
        self.nt_keys = set()
        self.samples = []
        self.violations = []  # (fn, case, vdict)
        self.known_hits = []
        self.cov = {}
        self.assumptions = []
        self.rule = ""
        self.subcounts = {}
        self.tmp_root = tempfile.mkdtemp(prefix="bldfm_verif_%s_" % prop)
        os.chdir(self.tmp_root)
        self._pool = None
        self.known = load_known(prop)
        self.max_samples = 6

    # ---- fan-out -------------------------------------------------------
    def pool(self):
        if self._pool is None:
            ctx = mp.get_context("fork")
            self._pool = ctx.Pool(NPROC, initializer=_worker_init, initargs=(self.tmp_root,))
        return self._pool

    def close(self):
        # grandchildren first (pool workers a case may have left running: a library that keeps a pool alive, a timed-out gate) -
        # once their parents are gone they can no longer be found
        try:
            _kill_descendants(spare=[w.pid for w in getattr(self._pool, "_pool", [])] if self._pool is not None else [])
        except Exception:  # noqa
            pass
        self._close()

    def _close(self):
        if self._pool is not None:
            self._pool.terminate()
            self._pool.join()
            self._pool = None
        os.chdir("/")
        shutil.rmtree(self.tmp_root, ignore_errors=True)

    def map(self, modname, fnname, cases, chunksize=None, serial=False):
        jobs = [(modname, fnname, c) for c in cases]
        if serial or len(jobs) <= 1:
            return [_call(j) for j in jobs]
        if chunksize is None:
            chunksize = max(1, min(64, len(jobs) // (NPROC * 4)))
        return self.pool().map(_call, jobs, chunksize=chunksize)

    def run_cases(self, fn, cases, sub=None, chunksize=None, serial=False):
        """Run fn over all cases (16-way), merge results in enumeration order."""
        cases = list(cases)
        modname, fnname = fn.__module__, fn.__name__
        results = self.map(modname, fnname, cases, chunksize=chunksize, serial=serial)
        label = sub or fnname
        for case, res in zip(cases, results):
            self.add(fnname, case, res, label)
        return results

    def add(self, fnname, case, res, label=None):
        if "harness_error" in res:
            raise HarnessError(
                "case %s of %s failed inside the harness:\n%s"
                % (canon(case)[:300], fnname, res["harness_error"])
            )
        self.cases += 1
        self.evaluations += int(res.get("n", 1))
        label = label or fnname
        sc = self.subcounts.setdefault(label, {"cases": 0, "nontrivial": 0, "executions": 0})
        sc["cases"] += 1
        sc["executions"] += int(res.get("n", 1))
        nt = res.get("nt", True)
        if nt:
            key = res.get("key")
            if key is None:
                key = canon(case)
            if isinstance(nt, bool):
                before = len(self.nt_keys)
                self.nt_keys.add(label + "|" + str(key))
                sc["nontrivial"] += len(self.nt_keys) - before
            else:
                # several distinct non-trivial items inside one case
                before = len(self.nt_keys)
                for k in range(int(nt)):
                    self.nt_keys.add("%s|%s#%d" % (label, key, k))
                sc["nontrivial"] += len(self.nt_keys) - before
        nsub = sum(1 for s in self.samples if s.get("check") == label)
        if nsub < 2 and len(self.samples) < 40:
            self.samples.append({"check": label, "case": _shorten(case), "observed": res.get("obs")})
        for v in res["v"]:
            self.report(fnname, case, v)

    # ---- violations ----------------------------------------------------
    def report(self, fnname, case, v):
        sig = v.get("sig") or v.get("sub") or "violation"
        for k in self.known:
            if k.get("status") == "known" and fnmatch.fnmatchcase(sig, k["signature"]):
                self.known_hits.append((k, fnname, case, v))
                return
        self.violations.append((fnname, case, v))

    def finish(self, modname):
        """Write evidence, print verdict lines, return exit code."""
        wall = time.time() - self.t0
        # known findings: one line per listed finding that was hit
        seen = {}
        for k, fnname, case, v in self.known_hits:
            seen.setdefault(k["signature"], [k, 0, v])
            seen[k["signature"]][1] += 1
        for sigpat, (k, cnt, v) in seen.items():
            print(
                "KNOWN-FINDING: property=%s %s [signature %s; %d matching cases this run; e.g. %s]"
                % (self.prop, k["what"], sigpat, cnt, v.get("msg", "")[:200])
            )
        # violations -> replay files (grouped by signature, at most 5 files each)
        written = {}
        lines = []
        for fnname, case, v in self.violations:
            sig = v.get("sig") or v.get("sub")
            cnt = written.get(sig, 0)
            written[sig] = cnt + 1
            if cnt >= 2 or len(lines) >= 12:
                continue
            rec = {
                "property": self.prop,
                "module": modname,
                "fn": fnname,
                "case": case,
                "sub": v.get("sub"),
                "signature": sig,
                "message": v.get("msg"),
                "seed": self.seed,
                "tier": self.tier,
            }
            d = os.path.join(VERIF, "replays", self.prop)
            os.makedirs(d, exist_ok=True)
            path = os.path.join(d, case_hash([fnname, case, sig]) + ".json")
            if any(path == l[0] for l in lines):
                continue
            with open(path, "w") as f:
                json.dump(rec, f, indent=1, default=_jd)
            lines.append((path, sig, v.get("msg", "")))
        cov = dict(self.cov)
        nvi = len(self.violations)
        ev = {
            "property_id": self.prop,
            "tier": self.tier,
            "seed": int(self.seed),
            "level": self.level,
            "coverage": cov,
            "assumptions": self.assumptions,
            "wall_s": round(wall, 2),
            "violations": nvi,
        }
        try:
            head = subprocess.run(["git", "-C", REPO, "rev-parse", "--short", "HEAD"], capture_output=True, text=True).stdout.strip()
            dirty = subprocess.run(["git", "-C", REPO, "status", "--porcelain", "--", "src"], capture_output=True, text=True).stdout.strip()
            cov["repo_under_test"] = {"path": REPO, "head": head, "modified_source_files": [l[3:] for l in dirty.splitlines()]}
        except Exception:
            pass
        cov.setdefault("evaluations", int(self.evaluations))
        cov.setdefault("cases", int(self.cases))
        cov.setdefault("distinct_nontrivial", len(self.nt_keys))
        cov.setdefault("rule", self.rule)
        cov.setdefault("samples", self.samples[:40])
        cov.setdefault("exhaustive", True)
        cov.setdefault("per_subcheck", self.subcounts)
        cov["known_findings_hit"] = sorted(seen)
        cov["violation_signatures"] = {s: c for s, c in written.items()}
        write_evidence(self.prop, ev)
        for path, sig, msg in lines:
            print("  violation [%s] %s" % (sig, msg[:300]))
            print("VIOLATION property=%s replay=%s" % (self.prop, path))
        print(
            "%s %s tier=%s seed=%d cases=%d executions=%d distinct_nontrivial=%d violations=%d known=%d wall=%.1fs"
            % (
                self.prop,
                "VIOLATED" if nvi else "held",
                self.tier,
                self.seed,
                self.cases,
                self.evaluations,
                len(self.nt_keys),
                nvi,
                len(self.known_hits),
                wall,
            )
        )
        for lab, sc in self.subcounts.items():
            print("   %-28s cases=%-7d executions=%-8d nontrivial=%d" % (lab, sc["cases"], sc["executions"], sc["nontrivial"]))
        return 1 if nvi else 0


def _shorten(case, limit=600):
    s = canon(case)
    if len(s) <= limit:
        return json.loads(s)
    return s[:limit] + "..."


def load_known(prop):
    p = os.path.join(VERIF, "known_findings.json")
    if not os.path.exists(p):
        return []
    with open(p) as f:
        data = json.load(f)
    return [k for k in data.get("findings", []) if k.get("property") == prop]


def write_evidence(prop, ev):
    # VERIF_EVIDENCE_DIR: used by tools/seeded.py only, so that runs against a deliberately broken tree never overwrite
    # the evidence of the real tree
    d = os.environ.get("VERIF_EVIDENCE_DIR") or os.path.join(VERIF, "evidence")
    os.makedirs(d, exist_ok=True)
    path = os.path.join(d, prop + ".json")
    tmp = path + ".tmp"
    with open(tmp, "w") as f:
        json.dump(ev, f, indent=1, default=_jd)
    os.replace(tmp, path)
    validate_evidence(path)


def validate_evidence(path):
    schema = "/root/.vp/EVIDENCE.schema.json"
    local = os.path.join(VERIF, "schemas", "EVIDENCE.schema.json")
    if os.path.exists(local):
        schema = local
    vt = shutil.which("python3-vt")
    if not vt or not os.path.exists(schema):
        return
    code = (
        "import json,sys,jsonschema;"
        "jsonschema.validate(json.load(open(sys.argv[1])),json.load(open(sys.argv[2])))"
    )
    r = subprocess.run([vt, "-c", code, path, schema], capture_output=True, text=True)
    if r.returncode != 0:
        raise HarnessError("evidence file %s does not validate:\n%s" % (path, r.stderr[-2000:]))


def warm_numba():
    """Compile / load both kernel variants once in a throw-away child so that the
    16 workers find them in numba's disk cache (and the parent stays pristine)."""
    code = r"""
import sys, os, tempfile
sys.path.insert(0, %r)
os.chdir(tempfile.mkdtemp())
import numpy as np
from bldfm import config
from bldfm.solver import steady_state_transport_solver as S
z = np.linspace(0.1, 10., 5); one = np.ones(5)
prof = (one*2., one*1., one, one, one)
for nt in (1, 2):
    config.NUM_THREADS = nt
    S(np.ones((4, 4)), z, prof, (40., 40.), 2, modes=(4, 4), halo=0.0, precision='double')
    S(np.ones((4, 4)), z, prof, (40., 40.), [1, 2], modes=(4, 4), halo=0.0, precision='double')
import shutil; d = os.getcwd(); os.chdir('/'); shutil.rmtree(d, ignore_errors=True)
os._exit(0)
""" % SRC
    r = subprocess.run([sys.executable, "-c", code], capture_output=True, text=True)
    if r.returncode != 0:
        raise HarnessError("numba warm-up failed:\n" + r.stderr[-3000:])


# ---------------------------------------------------------------------------
# one pristine forked child per case (process-level checks: C12, C14, C15)
# ---------------------------------------------------------------------------
def _kill_descendants(spare=()):
    """kill every process whose ancestor is this one (Linux /proc scan), except the direct children listed in `spare`
    (their own descendants are killed)"""
    import signal

    me = os.getpid()
    try:
        kids = {}
        for d in os.listdir("/proc"):
            if d.isdigit():
                try:
                    with open("/proc/%s/stat" % d) as fh:
                        st = fh.read()
                    ppid = int(st[st.rindex(")") + 2:].split()[1])
                    kids.setdefault(ppid, []).append(int(d))
                except (OSError, ValueError, IndexError):
                    continue
        todo, doomed = [me], []
        while todo:
            for k in kids.get(todo.pop(), []):
                doomed.append(k)
                todo.append(k)
        for k in doomed:
            if k in spare:
                continue
            try:
                os.kill(k, signal.SIGKILL)
            except OSError:
                pass
    except OSError:
        pass


def forked_map(modname, fnname, cases, tmp_root, nproc=None, timeout=900):
    """Run fn(case) for every case, each in its OWN child forked from this process (which has
    imported bldfm but never solved, never started a thread pool).  Up to nproc children run
    concurrently; results come back over pipes, in case order.  A child that dies or times out is
    a harness error."""
    import pickle
    import select

    nproc = nproc or NPROC
    cases = list(cases)
    results = [None] * len(cases)
    running = {}
    nxt = 0
    sys.stdout.flush()
    sys.stderr.flush()
    while nxt < len(cases) or running:
        while nxt < len(cases) and len(running) < nproc:
            r, w = os.pipe()
            pid = os.fork()
            if pid == 0:
                code = 0
                try:
                    os.close(r)
                    d = tempfile.mkdtemp(prefix="c%d_" % os.getpid(), dir=tmp_root)
                    os.chdir(d)
                    res = _call((modname, fnname, cases[nxt]))
                    _kill_descendants()  # e.g. pool workers the library left running: they hold the result pipe open
                    data = pickle.dumps(res)
                    mv = memoryview(data)
                    while len(mv):
                        k = os.write(w, mv[: 1 << 16])
                        mv = mv[k:]
                    os.close(w)
                    os.chdir("/")
                    shutil.rmtree(d, ignore_errors=True)
                except BaseException:
                    try:
                        traceback.print_exc()
                    finally:
                        code = 3
                finally:
                    os._exit(code)
            os.close(w)
            running[r] = (nxt, pid, bytearray(), time.time())
            nxt += 1
        rl, _, _ = select.select(list(running), [], [], 1.0)
        for fd in rl:
            idx, pid, buf, t0 = running[fd]
            data = os.read(fd, 1 << 20)
            if data:
                buf.extend(data)
                continue
            os.close(fd)
            _, status = os.waitpid(pid, 0)
            del running[fd]
            if status != 0 or not buf:
                for fd2, (i2, p2, _, _) in running.items():
                    try:
                        os.kill(p2, 9)
                    except OSError:
                        pass
                raise HarnessError("child for case %s exited with status %r and %d bytes of result" % (canon(cases[idx])[:300], status, len(buf)))
            results[idx] = pickle.loads(bytes(buf))
        now = time.time()
        for fd, (idx, pid, buf, t0) in list(running.items()):
            if now - t0 > timeout:
                for fd2, (i2, p2, _, _) in running.items():
                    try:
                        os.kill(p2, 9)
                    except OSError:
                        pass
                raise HarnessError("child for case %s timed out after %ds" % (canon(cases[idx])[:300], timeout))
    return results


def run_forked(ctx, fn, cases, sub=None, nproc=None, timeout=900):
    cases = list(cases)
    res = forked_map(fn.__module__, fn.__name__, cases, ctx.tmp_root, nproc=nproc, timeout=timeout)
    for case, r in zip(cases, res):
        ctx.add(fn.__name__, case, r, sub or fn.__name__)
    return res
