"""Footprint solves of two forked workers through ONE cache directory under every preemption-bounded interleaving of their
file operations (vf/procsched.py), judged by the calling check's own oracle.

    workers : list of (label, thunk)     thunk(cache_dir) runs in a forked worker and returns a picklable result
    judge   : (label, result) -> None | message      applied to what each worker returned
    after   : thunk(cache_dir) -> list of messages   runs in the scheduler process after every execution, in the directory
                                                     the workers left behind (what a later session finds)"""

import os

from vf import core
from vf import procsched


def explore(workers, judge, after, bound=2, cap=20000, sub="cache-race", what=""):
    labels = [w[0] for w in workers]

    def make_workers(wd):
        cdir = os.path.join(wd, ".bldfm_cache")
        return [(lambda t=t: t(cdir)) for _, t in workers]

    def oracle(wd, trace, results):
        cdir = os.path.join(wd, ".bldfm_cache")
        msgs = []
        for lab, r in zip(labels, results):
            if r is None:
                msgs.append("worker %s died" % lab)
            elif r[0] != "ok":
                msgs.append("worker %s raised %s" % (lab, r[1]))
            else:
                m = judge(lab, r[1])
                if m:
                    msgs.append("worker %s: %s" % (lab, m))
        cwd = os.getcwd()
        os.chdir(wd)
        try:
            msgs += list(after(cdir) or [])
        finally:
            os.chdir(cwd)
        return msgs

    out = procsched.explore(make_workers, oracle, bound=bound, max_executions=cap)
    if out["capped"]:
        raise core.HarnessError("interleaving exploration hit its cap of %d executions" % cap)
    v = []
    for sched, trace, msgs in out["violations"][:3]:
        v.append({"sub": sub, "sig": "%s/%s" % (sub, "+".join(labels)),
                  "msg": "%s: two forked workers on one cache directory, schedule %s (file operations %s ...): %s" % (what, "".join(str(k) for k in sched), [(k, o) for k, o, _ in trace if o != "start"][:24], "; ".join(msgs[:3])),
                  "schedule": sched})
    return {"v": v, "nt": out["distinct_traces"] > 2, "n": out["executions"],
            "obs": {"executions": out["executions"], "distinct_interleavings": out["distinct_traces"], "steps_per_execution": out["max_steps"], "preemption_bound": bound, "violating_schedules": len(out["violations"])}}


def solver_pair(reqs, expect, tol, what, bound=2, sub="cache-race"):
    """reqs: {label: solver kwargs (footprint mode)}, expect: {label: (conc, flx) by the calling check's OWN oracle}.
    Every worker's answer and every answer a later session gets from the directory must match the oracle within tol
    (relative to the field maximum)."""
    import numpy as np

    from bldfm.cache import GreensFunctionCache
    from vf import solverlib as sl

    S = sl.solver()

    def cmp(label, c, f):
        ec, ef = expect[label]
        for nm, a, b in (("conc", c, ec), ("flx", f, ef)):
            a, b = np.asarray(a, dtype=float), np.asarray(b, dtype=float)
            if a.shape != b.shape:
                return "%s of %s has shape %s, expected %s" % (nm, label, a.shape, b.shape)
            e = sl.relerr(a, b, max(np.abs(b).max(), 1e-300))
            if not e <= tol:
                return "%s of %s differs from the oracle by %.2e of the field maximum" % (nm, label, e)
        return None

    def mk(label):
        def run(cdir):
            _, c, f = S(cache=GreensFunctionCache(cdir), **reqs[label])
            return np.asarray(c), np.asarray(f)
        return run

    def judge(label, res):
        return cmp(label, res[0], res[1])

    def after(cdir):
        msgs = []
        for label in reqs:
            _, c, f = S(cache=GreensFunctionCache(cdir), **reqs[label])
            m = cmp(label, c, f)
            if m:
                msgs.append("a later session through the same directory: " + m)
        return msgs

    return explore([(label, mk(label)) for label in reqs], judge, after, bound=bound, sub=sub, what=what)
