"""Series in which ONE step cannot be solved, through every driver: deliver nothing, or deliver it right.

A met record can be unusable (a NaN gap in the wind speed or friction velocity, a gap-filled L = 0) - the single run of
that step raises.  What a driver then does with the WHOLE series is its own business (today: the call raises), but
whatever it returns is held to the drivers' contract: keys in configuration order, one entry per time step, and the
entry at position i is the single run of step i for every step whose single run exists.  A driver that swallows the
failing item and closes the gap hands out results under the wrong step / the wrong tower.

Enumerated: shapes (towers x steps) x position of the unusable step (first, middle, last) x kind of gap x driver
(timeseries, multitower, parallel over towers / time / both) x worker count."""

import itertools
import warnings

import numpy as np

TOWERS = [("north", 50.0003, 10.0004, 5.0), ("south", 50.0001, 10.0008, 7.5), ("mast3", 50.0004, 10.0002, 6.0)]
KINDS = ("nan-wind_speed", "mol-zero", "nan-ustar")
# not a bad record but a bad process state: the numerical thread count set beyond what the machine has (every in-process
# solve raises); dispersion mode with a user-supplied surface flux, so a result recovered "elsewhere" shows
OVERSUBSCRIBED = "threads-oversubscribed"


def make_config(nt, ns, bad, kind, footprint=True):
    from bldfm.config_parser import parse_config_dict

    ust = [0.30, 0.45, 0.36, 0.41][:ns]
    wdir = [20.0, 250.0, 135.0, 300.0][:ns]
    ws = [3.0, 3.5, 2.5, 4.0][:ns]
    mol = [-50.0, -80.0, 120.0, -30.0][:ns]
    if kind == "nan-wind_speed":
        ws[bad] = float("nan")
    elif kind == "mol-zero":
        mol[bad] = 0.0
    elif kind == "nan-ustar":
        ust[bad] = float("nan")
    return parse_config_dict({
        "domain": {"nx": 8, "ny": 6, "xmax": 80.0, "ymax": 60.0, "nz": 4, "modes": [8, 6], "ref_lat": 50.0, "ref_lon": 10.0, "halo": 20.0},
        "towers": [{"name": n, "lat": la, "lon": lo, "z_m": zm} for n, la, lo, zm in TOWERS[:nt]],
        "met": {"ustar": ust, "wind_dir": wdir, "mol": mol, "wind_speed": ws, "timestamps": ["2024-07-01T%02d:00" % (10 + i) for i in range(ns)]},
        "solver": {"footprint": footprint, "precision": "double"},
    })


def cases(tier):
    shapes = [(2, 3), (1, 3)] if tier == "quick" else [(2, 3), (1, 3), (3, 3), (2, 4)]
    for (nt, ns), kind in itertools.product(shapes, KINDS):
        for bad in sorted({0, ns // 2, ns - 1}):
            for drv in ("timeseries", "multitower", "parallel-towers", "parallel-time", "parallel-both"):
                if drv.startswith("parallel") and tier == "quick" and kind == "nan-ustar":
                    continue
                yield {"shape": [nt, ns], "kind": kind, "bad": bad, "driver": drv, "W": 2}
    # (the parallel driver documents that it ignores a supplied surface flux and resets the thread count in its workers)
    for (nt, ns), drv in itertools.product(shapes[:2], ("timeseries", "multitower")):
        yield {"shape": [nt, ns], "kind": OVERSUBSCRIBED, "bad": 0, "driver": drv, "W": 2}


def _same(got, want):
    for k in ("tower_name", "tower_xy", "timestamp"):
        if got.get(k) != want.get(k):
            return "%s=%r, the single run of that step has %r" % (k, got.get(k), want.get(k))
    for k in ("conc", "flx"):
        a, b = np.asarray(got[k]), np.asarray(want[k])
        if a.shape != b.shape:
            return "%s shape %s vs %s" % (k, a.shape, b.shape)
        sc = max(np.abs(b).max(), 1e-300)
        e = np.abs(a - b).max() / sc
        if not e <= 1e-12:
            return "%s differs from the single run of that step by %.2e of the field maximum" % (k, e)
    return None


def case_failing_step(case):
    import bldfm.interface as bi

    from bldfm import config as rt

    nt, ns = case["shape"]
    over = case["kind"] == OVERSUBSCRIBED
    cfg = make_config(nt, ns, case["bad"], case["kind"], footprint=not over)
    q_user = (np.random.default_rng(8).random((cfg.domain.ny, cfg.domain.nx)) + np.arange(cfg.domain.nx)[None, :]) if over else None
    kwq = {"surface_flux": q_user} if over else {}
    names = [t.name for t in cfg.towers]
    single = {}
    saved_threads = rt.NUM_THREADS
    with warnings.catch_warnings():
        warnings.simplefilter("ignore")
        for t in cfg.towers:
            for i in range(ns):
                try:
                    single[(t.name, i)] = bi.run_bldfm_single(cfg, t, met_index=i, **kwq)
                except Exception as e:  # noqa
                    single[(t.name, i)] = type(e).__name__
        raised_single = sorted({i for (n, i), r in single.items() if isinstance(r, str)})
        drv = case["driver"]
        try:
            if over:
                rt.NUM_THREADS = 100000
            if drv == "timeseries":
                res = {t.name: bi.run_bldfm_timeseries(cfg, t, **kwq) for t in cfg.towers[:1]}
                names = names[:1]
            elif drv == "multitower":
                res = bi.run_bldfm_multitower(cfg, **kwq)
            else:
                res = bi.run_bldfm_parallel(cfg, max_workers=case["W"], parallel_over=drv.split("-")[1], **kwq)
        except Exception as e:  # noqa - the driver refuses the whole series: nothing was delivered, nothing to judge
            return {"v": [], "nt": bool(raised_single) or over, "n": nt * ns + 1, "obs": {"driver": "raised " + type(e).__name__, "steps_whose_single_run_raises": raised_single}}
        finally:
            rt.NUM_THREADS = saved_threads
    v = []
    lab = "%s, %d tower(s) x %d steps, step %d unusable (%s)" % (drv, nt, ns, case["bad"], case["kind"])
    if list(res.keys()) != names:
        v.append({"sub": "failing-step", "sig": "failing-step/keys", "msg": "%s: the driver returned keys %r, configuration order is %r" % (lab, list(res.keys()), names)})
    for nm in names:
        lst = res.get(nm)
        if lst is None:
            continue
        if len(lst) != ns:
            v.append({"sub": "failing-step", "sig": "failing-step/length/%s" % drv, "msg": "%s: the driver returned %d results for tower %s, the series has %d steps" % (lab, len(lst), nm, ns)})
        for i in range(min(ns, len(lst))):
            want = single[(nm, i)]
            if isinstance(want, str) or lst[i] is None:
                continue
            d = _same(lst[i], want)
            if d:
                v.append({"sub": "failing-step", "sig": "failing-step/misfiled/%s" % drv, "msg": "%s: entry %d of tower %s: %s" % (lab, i, nm, d)})
                break
    return {"v": v[:4], "nt": bool(raised_single) or over, "n": nt * ns + 1, "obs": {"driver": "returned", "steps_whose_single_run_raises": raised_single}}
