"""Call-history purity for public functions other than the solver (the solver has C12).

A check module provides `HIST_OPS` (a list of JSON-able op descriptions) and `hist_op(i)` (executes op i through
the public API and returns its result as nested tuples / dicts / arrays / scalars).  The reference digest of every
op is taken in its own pristine forked child; then EVERY ordered sequence of ops up to the depth bound is executed
in one process and each result is compared bit for bit with the reference: a memo with an incomplete key, a
mutated default, a reused buffer or a stale file shows up as a result that depends on what was called before."""
import hashlib
import importlib
import itertools

import numpy as np

from vf import core


def digest(obj):
    h = hashlib.sha256()

    def up(o):
        if isinstance(o, np.ndarray):
            h.update(b"A" + str(o.shape).encode() + str(o.dtype).encode() + np.ascontiguousarray(o).tobytes())
        elif isinstance(o, (list, tuple)):
            h.update(b"L%d" % len(o))
            for x in o:
                up(x)
        elif isinstance(o, dict):
            h.update(b"D%d" % len(o))
            for k in sorted(o, key=repr):
                h.update(repr(k).encode())
                up(o[k])
        elif isinstance(o, (np.generic,)):
            h.update(b"S" + repr(o.item()).encode() + str(o.dtype).encode())
        elif isinstance(o, float):
            h.update(b"F" + np.float64(o).tobytes())
        else:
            h.update(b"R" + repr(o).encode())

    up(obj)
    return h.hexdigest()[:24]


def case_ref(case):
    mod = importlib.import_module(case["module"])
    r = mod.hist_op(case["op"])
    return {"v": [], "nt": True, "digest": digest(r), "obs": {"op": case["op"]}}


def case_hist(case):
    mod = importlib.import_module(case["module"])
    v = []
    for k, i in enumerate(case["ops"]):
        d = digest(mod.hist_op(i))
        if d != case["refs"][i]:
            v.append({"sub": "call-history", "sig": "call-history/op%d" % i,
                      "msg": "call %d of the history %s (op %d = %s) returns something else than the same call in a fresh process" % (k, case["ops"], i, core.canon(mod.HIST_OPS[i])[:300])})
            break
    return {"v": v, "nt": len(case["ops"]) > 1, "n": len(case["ops"])}


def run(ctx, modname, depth, sub="call-histories", chunk=None):
    mod = importlib.import_module(modname)
    n = len(mod.HIST_OPS)
    refs = core.forked_map(__name__, "case_ref", [{"module": modname, "op": i} for i in range(n)], ctx.tmp_root)
    for r in refs:
        if "harness_error" in r:
            raise core.HarnessError(r["harness_error"])
        if r["v"]:
            raise core.HarnessError("reference op failed: %r" % r["v"])
    rd = [r["digest"] for r in refs]
    cases = [{"module": modname, "ops": list(h), "refs": rd} for d in range(1, depth + 1) for h in itertools.product(range(n), repeat=d)]
    res = ctx.map(__name__, "case_hist", cases)
    for c, r in zip(cases, res):
        ctx.add("case_hist", {"module": modname, "ops": c["ops"], "refs": rd}, r, sub)
    ctx.cov["call_history_ops"] = n
    ctx.cov["call_history_depth"] = depth
    ctx.cov["call_histories_run"] = len(cases)
    return res
