"""Call-history purity for public functions other than the solver (the solver has C12).

A check module provides `HIST_OPS` (a list of JSON-able op descriptions) and `hist_op(i)` (executes op i through
the public API and returns its result as nested tuples / dicts / arrays / scalars).  The reference digest of every
op is taken in its own pristine forked child; then EVERY ordered sequence of ops up to the depth bound is executed
in one process and each result is compared bit for bit with the reference: a memo with an incomplete key, a
mutated default, a reused buffer or a stale file shows up as a result that depends on what was called before."""
import hashlib
import importlib
import itertools

import numpy as np

from vf import core


def digest(obj):
    h = hashlib.sha256()

    def up(o):
        import dataclasses

        if dataclasses.is_dataclass(o) and not isinstance(o, type):
            h.update(b"C" + type(o).__name__.encode())
            up({f.name: getattr(o, f.name) for f in dataclasses.fields(o)})
        elif isinstance(o, np.ndarray):
            h.update(b"A" + str(o.shape).encode() + str(o.dtype).encode() + np.ascontiguousarray(o).tobytes())
        elif isinstance(o, (list, tuple)):
            h.update(b"L%d" % len(o))
            for x in o:
                up(x)
        elif isinstance(o, dict):
            h.update(b"D%d" % len(o))
            for k in sorted(o, key=repr):
                h.update(repr(k).encode())
                up(o[k])
        elif isinstance(o, (np.generic,)):
            h.update(b"S" + repr(o.item()).encode() + str(o.dtype).encode())
        elif isinstance(o, float):
            h.update(b"F" + np.float64(o).tobytes())
        else:
            h.update(b"R" + repr(o).encode())

    up(obj)
    return h.hexdigest()[:24]


def case_ref(case):
    mod = importlib.import_module(case["module"])
    r = mod.hist_op(case["op"])
    return {"v": [], "nt": True, "digest": digest(r), "obs": {"op": case["op"]}}


def poison(obj, depth=0):
    """what a caller may legitimately do with a RETURNED result: overwrite it in place"""
    import dataclasses

    if depth > 5:
        return
    if isinstance(obj, np.ndarray):
        if obj.flags.writeable and obj.size:
            try:
                obj[...] = np.nan if obj.dtype.kind in "fc" else 0
            except Exception:
                pass
    elif isinstance(obj, dict):
        for k in list(obj):
            poison(obj[k], depth + 1)
            if isinstance(obj[k], (int, float, str)) or obj[k] is None:
                obj[k] = "poisoned-by-caller"
    elif isinstance(obj, list):
        for x in obj:
            poison(x, depth + 1)
        for k in range(len(obj)):
            if isinstance(obj[k], (int, float, str)):
                obj[k] = "poisoned-by-caller"
    elif isinstance(obj, tuple):
        for x in obj:
            poison(x, depth + 1)
    elif dataclasses.is_dataclass(obj) and not isinstance(obj, type):
        pass  # configuration objects are inputs, not results


def case_hist(case):
    """mode 'retain': every earlier result is kept alive and must still digest to what it was when it was returned
    (a later call must not reach into it); mode 'poison': every returned result is overwritten in place by the caller
    right after it was checked (a later identical call must not hand the same object out again)."""
    mod = importlib.import_module(case["module"])
    v = []
    kept = []
    mode = case.get("mode", "retain")
    for k, i in enumerate(case["ops"]):
        r = mod.hist_op(i)
        d = digest(r)
        if d != case["refs"][i]:
            v.append({"sub": "call-history", "sig": "call-history/%s/op%d" % (mode, i),
                      "msg": "call %d of the history %s (op %d = %s; mode %s) returns something else than the same call in a fresh process" % (k, case["ops"], i, core.canon(mod.HIST_OPS[i])[:300], mode)})
            break
        if mode == "poison":
            poison(r)
        else:
            kept.append((k, i, r, d))
            for (k0, i0, r0, d0) in kept[:-1]:
                if digest(r0) != d0:
                    v.append({"sub": "call-history", "sig": "call-history/earlier-result-changed/op%d" % i0,
                              "msg": "the result returned by call %d (op %d) of the history %s was changed by call %d (op %d = %s)" % (k0, i0, case["ops"], k, i, core.canon(mod.HIST_OPS[i])[:200])})
                    break
            if v:
                break
    return {"v": v, "nt": len(case["ops"]) > 1, "n": len(case["ops"])}


def run(ctx, modname, depth, sub="call-histories", chunk=None):
    mod = importlib.import_module(modname)
    n = len(mod.HIST_OPS)
    refs = core.forked_map(__name__, "case_ref", [{"module": modname, "op": i} for i in range(n)], ctx.tmp_root)
    for r in refs:
        if "harness_error" in r:
            raise core.HarnessError(r["harness_error"])
        if r["v"]:
            raise core.HarnessError("reference op failed: %r" % r["v"])
    rd = [r["digest"] for r in refs]
    cases = [{"module": modname, "ops": list(h), "refs": rd, "mode": mode} for d in range(1, depth + 1) for h in itertools.product(range(n), repeat=d) for mode in (("retain",) if d == 1 else ("retain", "poison"))]
    res = ctx.map(__name__, "case_hist", cases)
    for c, r in zip(cases, res):
        ctx.add("case_hist", {"module": modname, "ops": c["ops"], "refs": rd, "mode": c["mode"]}, r, sub)
    ctx.cov["call_history_ops"] = n
    ctx.cov["call_history_depth"] = depth
    ctx.cov["call_histories_run"] = len(cases)
    return res
