"""The same request written differently.

A property quantified over "all sources / towers / modes ..." speaks about VALUES; Python callers hand the same values over
in many legitimate forms - positionally in the documented order or by keyword, defaults written out or omitted, tuples,
lists, ndarrays, numpy scalars, whole numbers as ints, flags as bool / numpy.bool_ / 0-1.  For a finite set of requests
every form of a finite form alphabet is executed and compared with the canonical keyword call (which the calling check
has judged against its own oracle); forms the library refuses (TypeError / ValueError / IndexError) are recorded, and the
set of refused forms is compared with the list that the unchanged library is known to refuse (REFUSED_OK) - a form that is
answered must be answered identically.

The documented positional order is that of the released signature (README / docstring of the pinned commit)."""

import numpy as np

from vf import solverlib as sl

SOLVER_ORDER = ("srf_flx", "z", "profiles", "domain", "levels", "modes", "meas_pt", "srf_bg_conc", "footprint", "analytic", "halo", "precision")
SOLVER_DEFAULTS = {"modes": (512, 512), "meas_pt": (0.0, 0.0), "srf_bg_conc": 0.0, "footprint": False, "analytic": False, "halo": None, "precision": "single"}


def _whole(x):
    return float(x).is_integer()


def solver_forms(kw):
    """yields (label, args, kwargs)"""
    full = dict(SOLVER_DEFAULTS)
    full.update(kw)
    yield "all-positional", [full[k] for k in SOLVER_ORDER], {}
    yield "defaults-written-out", [], dict(full)
    yield "five-positional-rest-keywords", [full[k] for k in SOLVER_ORDER[:5]], {k: v for k, v in kw.items() if k not in SOLVER_ORDER[:5]}
    for npos in (6, 7, 8, 10):
        yield "%d-positional" % npos, [full[k] for k in SOLVER_ORDER[:npos]], {k: full[k] for k in SOLVER_ORDER[npos:]}

    def with_(label, **ch):
        d = dict(kw)
        d.update(ch)
        return label, [], d

    mp = full["meas_pt"]
    yield with_("meas_pt-list", meas_pt=[float(mp[0]), float(mp[1])])
    yield with_("meas_pt-ndarray", meas_pt=np.array([mp[0], mp[1]], dtype=float))
    yield with_("meas_pt-numpy-scalars", meas_pt=(np.float64(mp[0]), np.float64(mp[1])))
    if _whole(mp[0]) and _whole(mp[1]):
        yield with_("meas_pt-ints", meas_pt=(int(mp[0]), int(mp[1])))
        yield with_("meas_pt-int-list", meas_pt=[int(mp[0]), int(mp[1])])
    dom = full["domain"]
    yield with_("domain-list", domain=[dom[0], dom[1]])
    yield with_("domain-ndarray", domain=np.array(dom, dtype=float))
    if _whole(dom[0]) and _whole(dom[1]):
        yield with_("domain-ints", domain=(int(dom[0]), int(dom[1])))
    m = full["modes"]
    yield with_("modes-list", modes=[int(m[0]), int(m[1])])
    yield with_("modes-ndarray", modes=np.array(m, dtype=int))
    yield with_("modes-numpy-ints", modes=(np.int64(m[0]), np.int32(m[1])))
    lv = full["levels"]
    if np.ndim(lv) == 0:
        yield with_("level-numpy-int", levels=np.int64(lv))
        yield with_("level-0d-array", levels=np.array(int(lv)))
    else:
        yield with_("levels-list", levels=[int(l) for l in lv])
        yield with_("levels-ndarray", levels=np.array(lv, dtype=int))
        yield with_("levels-int32-array", levels=np.array(lv, dtype=np.int32))
    yield with_("profiles-list", profiles=list(full["profiles"]))
    yield with_("profiles-stacked-rows", profiles=tuple(np.stack(full["profiles"])))  # rows of one 2-D table (contiguous views)
    # identity vs equality of the profile components: components that are EQUAL passed as ONE object (a caller writing
    # K = kappa*ustar*z; profiles = (u, v, K, K, Kz)), and every component as an object of its own
    pr = [np.asarray(a) for a in full["profiles"]]
    yield with_("profiles-fresh-copies", profiles=tuple(np.array(a, copy=True) for a in pr))
    shared = list(pr)
    for i in range(len(shared)):
        for j in range(i + 1, len(shared)):
            if np.array_equal(pr[i], pr[j]):
                shared[j] = shared[i]
    if any(shared[j] is shared[i] for i in range(5) for j in range(i + 1, 5)):
        yield with_("profiles-equal-components-one-object", profiles=tuple(shared))
    for flag in ("footprint", "analytic"):
        yield with_("%s-numpy-bool" % flag, **{flag: np.bool_(full[flag])})
        yield with_("%s-int" % flag, **{flag: int(full[flag])})
    bg = full["srf_bg_conc"]
    yield with_("background-numpy-scalar", srf_bg_conc=np.float64(bg))
    if _whole(bg):
        yield with_("background-int", srf_bg_conc=int(bg))
    h = full["halo"]
    if h is not None:
        yield with_("halo-numpy-scalar", halo=np.float64(h))
        if _whole(h):
            yield with_("halo-int", halo=int(h))
    yield with_("source-fortran-order", srf_flx=np.asfortranarray(full["srf_flx"]))
    yield with_("source-read-only", srf_flx=_readonly(full["srf_flx"]))
    yield with_("source-complex-dtype", srf_flx=np.asarray(full["srf_flx"], dtype=complex))  # imaginary part exactly zero
    yield with_("source-float32", srf_flx=np.asarray(np.asarray(full["srf_flx"], dtype=np.float32), dtype=np.float32)) if False else with_("source-copy", srf_flx=np.array(full["srf_flx"], copy=True))
    yield with_("precision-str-subclass", precision=_Str(full["precision"]))


class _Str(str):
    pass


def _readonly(a):
    b = np.array(a, copy=True)
    b.setflags(write=False)
    return b


def requests():
    z, prof = sl.build_profiles("most_aniso", 4)
    zc, profc = sl.build_profiles("const", 4)
    rng = np.random.default_rng(11)
    q = rng.random((6, 8)) + 0.2
    base = dict(srf_flx=q, z=z, profiles=prof, domain=(80.0, 90.0), levels=[2, 4], modes=(8, 6), halo=13.0, precision="double")
    R = {
        # dispersion, measurement point AT the origin written out (no re-centring), background
        "dispersion-origin": dict(base, meas_pt=(0.0, 0.0), srf_bg_conc=2.0),
        # dispersion re-centred on a tower
        "dispersion-recentred": dict(base, meas_pt=(30.0, 45.0), srf_bg_conc=3.0, halo=0.0),
        "footprint": dict(base, meas_pt=(30.0, 45.0), footprint=True, levels=[4, 1]),
        "footprint-origin-tower": dict(base, meas_pt=(0.0, 0.0), footprint=True, levels=3),
        "analytic": dict(base, z=zc, profiles=profc, analytic=True, srf_bg_conc=1.0, modes=(4, 4)),
        "analytic-footprint": dict(base, z=zc, profiles=profc, analytic=True, footprint=True, meas_pt=(20.0, 15.0), halo=None),
        "single-default-precision": dict({k: v for k, v in base.items() if k != "precision"}, levels=4, srf_bg_conc=5.0),
        "top-level-in-list": dict(base, levels=[len(z) - 1, 0], srf_bg_conc=-4.0, halo=20.0),
        # value coincidences among the profile components (separate objects here; the forms pass them as one object too)
        "pair-kx-ky": dict(base, profiles=(prof[0], prof[0].copy(), 3.0 * prof[4], 3.0 * prof[4], prof[4]), srf_bg_conc=1.0),
        "pair-ky-kz": dict(base, profiles=(prof[0], prof[1], 3.0 * prof[4], prof[4].copy(), prof[4]), footprint=True, meas_pt=(30.0, 45.0)),
        "pair-kx-kz": dict(base, profiles=(prof[0], prof[1], prof[4].copy(), 0.25 * prof[4], prof[4]), meas_pt=(30.0, 45.0)),
        "pair-kx-ky-analytic": dict(base, z=zc, profiles=(profc[0], profc[0].copy(), 2.5 * profc[4], 2.5 * profc[4], profc[4]), analytic=True, srf_bg_conc=1.0),
        "pair-kx-ky-analytic-footprint": dict(base, z=zc, profiles=(profc[0], profc[1], 2.5 * profc[4], 2.5 * profc[4], profc[4]), analytic=True, footprint=True, meas_pt=(20.0, 15.0)),
    }
    return R


# forms the unchanged library refuses (recorded when the machinery was built; the property does not ask for more)
REFUSED_OK = set()


def case_solver_forms(case):
    S = sl.solver()
    name = case["request"]
    kw = requests()[name]
    _, c0, f0 = S(**kw)
    c0, f0 = np.asarray(c0), np.asarray(f0)
    sc_c, sc_f = max(np.abs(c0).max(), 1e-300), max(np.abs(f0).max(), 1e-300)
    tol = 1e-9 if kw.get("precision") == "double" else 2e-5  # as in the algebraic checks: another memory layout may change the summation order of the FFT
    v = []
    n = 1
    refused = {}
    for label, args, kwargs in solver_forms(kw):
        n += 1
        try:
            _, c, f = S(*args, **kwargs)
        except Exception as e:  # noqa - a refusal of any kind
            refused[label] = type(e).__name__
            if (name, label) not in REFUSED_OK and ("*", label) not in REFUSED_OK:
                v.append({"sub": "call-forms", "sig": "call-forms/refused/%s" % label, "msg": "request %s written as %s raises %s: %s (the keyword call is answered)" % (name, label, type(e).__name__, str(e)[:120])})
            continue
        c, f = np.asarray(c), np.asarray(f)
        if c.shape != c0.shape or f.shape != f0.shape or c.dtype != c0.dtype:
            v.append({"sub": "call-forms", "sig": "call-forms/shape/%s" % label, "msg": "request %s written as %s returns shapes %s/%s dtype %s, the keyword call %s/%s %s" % (name, label, c.shape, f.shape, c.dtype, c0.shape, f0.shape, c0.dtype)})
            continue
        e = max(sl.relerr(c, c0, sc_c), sl.relerr(f, f0, sc_f))
        if not e <= tol:
            v.append({"sub": "call-forms", "sig": "call-forms/%s" % label, "msg": "request %s written as %s differs from the keyword call by %.2e of the field maximum" % (name, label, e)})
    return {"v": v[:8], "nt": True, "n": n, "obs": {"forms": n - 1, "refused": refused}}


def case_requests_plain(case):
    """every request once, no oracle of its own: under vf.callerenv the answers are compared between the caller's environment
    and the ordinary one"""
    S = sl.solver()
    n = 0
    for name in case["requests"]:
        S(**requests()[name])
        n += 1
    return {"v": [], "nt": True, "n": n}


def run_solver_forms(ctx, sub="the same request in other call forms"):
    from vf import callerenv

    res = ctx.run_cases(case_solver_forms, [{"request": r} for r in requests()], sub=sub, chunksize=1)
    callerenv.run(ctx, case_requests_plain, [{"requests": list(requests())}])
    return res
