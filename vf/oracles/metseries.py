"""Reference model of a meteorological forcing series: a list of steps.

Boring on purpose: no bldfm import, no numpy."""

FIELDS = ("ustar", "mol", "wind_speed", "wind_dir")


class Reject(Exception):
    pass


def steps(met):
    """met: dict with optional keys ustar, mol, wind_speed, wind_dir, z0,
    timestamps (missing key == not given).  Returns the list of step dicts or
    raises Reject."""
    if met.get("ustar") is None and met.get("z0") is None:
        raise Reject("neither ustar nor z0")
    defaults = {"ustar": None, "mol": 1e9, "wind_speed": 5.0, "wind_dir": 270.0}
    vals = {f: met.get(f, defaults[f]) for f in FIELDS}
    lens = {len(v) for v in vals.values() if isinstance(v, list)}
    if len(lens) > 1:
        raise Reject("list lengths differ: %s" % sorted(lens))
    n = lens.pop() if lens else 1
    ts = met.get("timestamps")
    if ts is not None and len(ts) != n:
        raise Reject("timestamps length %d != %d" % (len(ts), n))
    out = []
    for i in range(n):
        s = {f: (v[i] if isinstance(v, list) else v) for f, v in vals.items()}
        if met.get("z0") is not None:
            s["z0"] = met["z0"]
        s["timestamp"] = ts[i] if ts is not None else i
        out.append(s)
    return out
