"""Reference model of the result cache: a dict keyed by the COMPLETE request.
The expected answer to a request is the uncached solve of that request (supplied by the harness)."""


class CacheModel:
    def __init__(self):
        self.store = {}

    def request(self, key, footprint=True):
        """returns 'repeat' if an identical request was stored before (must be served without
        solving), else 'new'.  Only footprint requests are cacheable."""
        if not footprint:
            return "uncacheable"
        if key in self.store:
            return "repeat"
        self.store[key] = True
        return "new"

    def damage(self, key):
        """the stored entry of this request was truncated / overwritten on disk: the next such request is a miss again
        (and must heal the entry)"""
        self.store.pop(key, None)
