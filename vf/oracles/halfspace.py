"""Closed-form constant-coefficient half-space solution, assembled through an
independent restatement of pad -> spectrum -> truncate -> per-mode solution ->
shift -> synthesis -> crop using plain DFT matrices (no FFT library, no bldfm)."""
import numpy as np


def retained(n, nl):
    """integer wavenumber indices kept by a truncation to nl modes on an n-point axis"""
    if nl >= n:
        idx = np.arange(n)
        return np.where(idx > (n - 1) // 2, idx - n, idx)  # all of them: -(n//2) .. (n-1)//2
    assert nl % 2 == 0 and (n - nl) % 2 == 0
    return np.arange(-nl // 2, nl // 2)


def solve(q0, dom, hgt, prof, modes, halo, meas_pt=(0.0, 0.0), bg=0.0, footprint=False, transfer=None, mean_resistance=None):
    """q0 (ny,nx); hgt: heights above the lowest node, shape (nl,); prof=(u,v,Kx,Ky,Kz) scalars.
    returns conc, flx of shape (nl, ny, nx).
    With `transfer` (callable (kx, ky) -> (Hp, Hq), arrays of shape (nl, M) for the M non-zero wavenumbers handed in)
    and `mean_resistance` (array (nl,)) the same assembly is used around any per-mode solution (e.g. the Riccati
    reference for height-dependent profiles); prof is then ignored."""
    if transfer is not None:
        prof = (0.0, 0.0, 1.0, 1.0, 1.0)
    u, v, Kx, Ky, Kz = prof
    ny, nx = q0.shape
    dx, dy = dom[0] / nx, dom[1] / ny
    if halo is None:
        halo = max(dom)
    px, py = int(halo / dx), int(halo / dy)
    nxe, nye = nx + 2 * px, ny + 2 * py
    nlx, nly = modes
    if nlx > nxe or nly > nye:
        nlx, nly = nxe, nye
    ix, iy = retained(nxe, nlx), retained(nye, nly)
    kx = 2 * np.pi * ix / (nxe * dx)
    ky = 2 * np.pi * iy / (nye * dy)
    xs = (np.arange(nxe)) * dx  # padded coordinates, origin at the padded corner
    ys = (np.arange(nye)) * dy
    N = nxe * nye
    if footprint:
        F = np.ones((len(ky), len(kx)), dtype=complex) / N
    else:
        qp = np.zeros((nye, nxe))
        qp[py:py + ny, px:px + nx] = q0
        Ax = np.exp(-1j * np.outer(kx, xs))  # (k, i)
        Ay = np.exp(-1j * np.outer(ky, ys))  # (l, j)
        F = Ay @ qp @ Ax.T / N
    KX, KY = np.meshgrid(kx, ky)
    lam2 = (Kx * KX**2 + Ky * KY**2 + 1j * (u * KX + v * KY)) / Kz
    lam = np.sqrt(lam2)  # principal root: Re >= 0
    zero = (KX == 0) & (KY == 0)
    hgt = np.asarray(hgt, dtype=float)
    Q = F[None] * np.exp(-lam[None] * hgt[:, None, None])
    with np.errstate(all="ignore"):
        P = Q / (Kz * lam[None])
    if transfer is not None:
        nz_ = ~zero
        Hp, Hq = transfer(KX[nz_], KY[nz_])
        Q[:, nz_] = F[nz_][None] * Hq
        P[:, nz_] = F[nz_][None] * Hp
    res = hgt / Kz if mean_resistance is None else np.asarray(mean_resistance, dtype=float)
    P[:, zero] = (bg - F[zero] * res)[:, None] if zero.any() else P[:, zero]
    Q[:, zero] = F[zero]
    xm, ym = meas_pt
    if footprint:
        # footprint(x) = sum_k P(k) exp(i k (xm + pad - x))
        Bx = np.exp(1j * np.outer(xm + px * dx - xs, kx))  # (i, k)
        By = np.exp(1j * np.outer(ym + py * dy - ys, ky))  # (j, l)
    else:
        sx = (xm - dom[0] / 2) if (xm**2 + ym**2 > 0) else 0.0
        sy = (ym - dom[1] / 2) if (xm**2 + ym**2 > 0) else 0.0
        Bx = np.exp(1j * np.outer(xs + sx, kx))
        By = np.exp(1j * np.outer(ys + sy, ky))
    conc = np.einsum("jl,nlk,ik->nji", By, P, Bx).real
    flx = np.einsum("jl,nlk,ik->nji", By, Q, Bx).real
    return conc[:, py:py + ny, px:px + nx], flx[:, py:py + ny, px:px + nx]


def transfer(kx, ky, h, prof):
    """per-mode transfer functions p_hat/q0_hat and q_hat/q0_hat at height h above the source"""
    u, v, Kx, Ky, Kz = prof
    lam = np.sqrt((Kx * kx**2 + Ky * ky**2 + 1j * (u * kx + v * ky)) / Kz)
    Hq = np.exp(-lam * h)
    with np.errstate(all="ignore"):
        Hp = Hq / (Kz * lam)
    return Hp, Hq, lam
