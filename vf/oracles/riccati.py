"""Exact per-mode solution of the steady advection-diffusion BVP for height-dependent
profiles, independent of the shooting/Taylor scheme under test.

For one horizontal wavenumber (k,l):  p' = -q/Kz,  q' = T p,
T(z) = -(Kx k^2 + Ky l^2) - i (u k + v l).  With the impedance R = p/q:
    R' = -1/Kz - T R^2 ,       (ln q)' = T R
Above the top node the coefficients are frozen at their top values and the solution
decays: R(z_top) = 1/(Kz lam), lam = sqrt(-T/Kz), Re lam > 0.  R is integrated DOWN
from z_top with DOP853 (rtol 1e-11); q(z)/q(z0) = exp(-int_{z0}^{z} ... ) follows from the
second equation.  Verified against the closed form for constant profiles (8e-13)."""
import numpy as np
from scipy.integrate import solve_ivp


def transfer(funcs, z0, ztop, zlev, kx, ky, rtol=1e-11, atol=1e-14):
    """funcs = (u, v, Kx, Ky, Kz) callables of z.  kx, ky: 1-D arrays of equal length M
    (no (0,0) entry).  Returns Hp, Hq of shape (len(zlev), M):  p_hat(z)/q0_hat, q_hat(z)/q0_hat."""
    u, v, Kx, Ky, Kz = funcs
    k = np.asarray(kx, dtype=float)
    l = np.asarray(ky, dtype=float)
    M = k.size

    def T(z):
        return -(Kx(z) * k**2 + Ky(z) * l**2) - 1j * (u(z) * k + v(z) * l)

    lam = np.sqrt(-T(ztop) / Kz(ztop))
    R0 = 1.0 / (Kz(ztop) * lam)

    def rhs(z, y):
        R = y[:M]
        t = T(z)
        return np.concatenate([-1.0 / Kz(z) - t * R**2, t * R])

    y0 = np.concatenate([R0, np.zeros(M, complex)])
    sol = solve_ivp(rhs, (ztop, z0), y0, method="DOP853", rtol=rtol, atol=atol, dense_output=True)
    if not sol.success:
        raise RuntimeError("reference integration failed: %s" % sol.message)
    yb = sol.sol(z0)
    Hp, Hq = [], []
    for zz in zlev:
        y = sol.sol(zz) if zz > z0 else yb
        q = np.exp(y[M:] - yb[M:])  # q(zz)/q(z0):  ln q integrated from ztop; difference removes the constant
        Hq.append(q)
        Hp.append(y[:M] * q)
    return np.array(Hp), np.array(Hq)
