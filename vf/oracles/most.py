"""Monin-Obukhov similarity functions written from the textbook forms
(Businger-Dyer), as functions of zeta = z/L.  No bldfm import.

Sign convention (the one the library's docstrings state):
    |u|(z) = u*/kappa * ( ln(z/z0) + Psi(z/L) ),   K(z) = kappa u* z / (phi_c(z/L) Pr)
so Psi is MINUS the usual psi_m:  Psi(zeta) = integral_0^zeta (phi_m(x) - 1)/x dx.
"""
import math

import numpy as np

KAPPA = 0.4


def phi_m(x):
    x = np.asarray(x, dtype=float)
    xs = np.minimum(x, 0.0)
    return np.where(x > 0, 1.0 + 5.0 * x, (1.0 - 16.0 * xs) ** -0.25)


def phi_c(x):
    x = np.asarray(x, dtype=float)
    xs = np.minimum(x, 0.0)
    return np.where(x > 0, 1.0 + 5.0 * x, (1.0 - 16.0 * xs) ** -0.5)


def Psi(x):
    x = np.asarray(x, dtype=float)
    xs = np.minimum(x, 0.0)
    xi = (1.0 - 16.0 * xs) ** 0.25
    un = -2.0 * np.log(0.5 * (1 + xi)) - np.log(0.5 * (1 + xi**2)) + 2.0 * np.arctan(xi) - 0.5 * math.pi
    return np.where(x > 0, 5.0 * x, un)


def Psi_quad(x):
    """Psi by quadrature of (phi_m - 1)/t from 0 to x."""
    from scipy.integrate import quad

    if x == 0:
        return 0.0
    f = lambda t: (float(phi_m(t)) - 1.0) / t  # noqa
    val, _ = quad(f, 0.0, x, epsabs=1e-13, epsrel=1e-12, limit=200)
    return val


def z0_from_ustar(zm, speed, ustar, L):
    return zm * math.exp(-KAPPA * speed / ustar + float(Psi(zm / L)))


def ustar_from_z0(zm, speed, z0, L):
    return speed * KAPPA / (math.log(zm / z0) + float(Psi(zm / L)))


def speed(z, z0, ustar, L):
    z = np.asarray(z, dtype=float)
    return ustar / KAPPA * (np.log(z / z0) + Psi(z / L))


def K(z, ustar, L, pr=1.0):
    z = np.asarray(z, dtype=float)
    return KAPPA * ustar * z / phi_c(z / L) / pr


def stretched_grid(n, zm, z0, zmx=None, h=None):
    """The documented stretched grid: uniform in zeta with dzeta = zm/n,
    z = -h ln(-(zeta-aa)/bb); z[0]=z0, z[n]=zm, last node >= zmx."""
    if h is None:
        h = 2.0 * zm
    if zmx is None:
        zmx = 2.0 * zm
    bb = zm / (math.exp(-z0 / h) - math.exp(-zm / h))
    aa = bb * math.exp(-z0 / h)
    zetamx = aa - bb * math.exp(-zmx / h)
    dzeta = zm / n
    k = 0
    zeta = []
    while k * dzeta < zetamx + dzeta - 1e-12 * dzeta:
        zeta.append(k * dzeta)
        k += 1
    zeta = np.array(zeta)
    return -h * np.log(-(zeta - aa) / bb)
