"""Brute-force O(n^2) reference for source-area rescaling and percentile contours.
Exact arithmetic (Fractions) so that ties and knife-edges are decided, not rounded."""
from fractions import Fraction


def bounds(f, g):
    """for every cell: (sum of f over cells with strictly larger g,
                        sum of f over the OTHER cells with larger-or-equal g)"""
    n = len(f)
    lo, hi = [], []
    for c in range(n):
        s = sum((Fraction(f[k]) for k in range(n) if g[k] > g[c]), Fraction(0))
        w = sum((Fraction(f[k]) for k in range(n) if g[k] >= g[c] and k != c), Fraction(0))
        lo.append(s)
        hi.append(w)
    return lo, hi


def percentile(values, p):
    """values: list of non-negative numbers; p: Fraction in (0,1].
    returns (count, level): the fewest highest-valued cells whose sum reaches p*total, and the smallest of them"""
    vals = sorted((Fraction(v) for v in values), reverse=True)
    total = sum(vals, Fraction(0))
    target = Fraction(p) * total
    acc = Fraction(0)
    for k, v in enumerate(vals):
        acc += v
        if acc >= target:
            return k + 1, v, acc - target
    return len(vals), vals[-1], Fraction(0)
