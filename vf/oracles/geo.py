"""Spherical-earth helpers written independently of bldfm (haversine distance, initial bearing,
and the plain equirectangular placement used to put a tower at a wanted local position)."""
import math

R_EARTH = 6_371_000.0


def haversine(lat1, lon1, lat2, lon2):
    p1, p2 = math.radians(lat1), math.radians(lat2)
    dphi = p2 - p1
    dl = math.radians(lon2 - lon1)
    a = math.sin(dphi / 2) ** 2 + math.cos(p1) * math.cos(p2) * math.sin(dl / 2) ** 2
    return 2 * R_EARTH * math.asin(min(1.0, math.sqrt(a)))


def initial_bearing(lat1, lon1, lat2, lon2):
    p1, p2 = math.radians(lat1), math.radians(lat2)
    dl = math.radians(lon2 - lon1)
    y = math.sin(dl) * math.cos(p2)
    x = math.cos(p1) * math.sin(p2) - math.sin(p1) * math.cos(p2) * math.cos(dl)
    return math.degrees(math.atan2(y, x)) % 360.0


def place(ref_lat, ref_lon, x, y):
    """lat/lon of the point x metres east and y metres north of the reference (equirectangular)"""
    lat = ref_lat + math.degrees(y / R_EARTH)
    lon = ref_lon + math.degrees(x / (R_EARTH * math.cos(math.radians(ref_lat))))
    return lat, lon
