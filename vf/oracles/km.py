"""Kormann & Meixner (2001) footprint written from the paper (eqs. 9, 11, 18, 19, 21, 31-36),
independently of bldfm.  All inputs are converted to float first."""
import math

import numpy as np
from scipy import special as sp
from scipy.integrate import quad

K = 0.4


def stability(zm, L):
    zm, L = float(zm), float(L)
    if math.isinf(L):  # exactly neutral: the common limit of both branches
        return 1.0, 1.0, 0.0, 1.0
    if L < 0:
        xi = (1 - 16 * zm / L) ** 0.25
        phim, phic = 1 / xi, 1 / xi**2
        psim = -2 * math.log((1 + xi) / 2) - math.log((1 + xi**2) / 2) + 2 * math.atan(xi) - math.pi / 2
        n = (1 - 24 * zm / L) / (1 - 16 * zm / L)
    else:
        phim = phic = 1 + 5 * zm / L
        psim = 5 * zm / L
        n = 1 / (1 + 5 * zm / L)
    return phim, phic, psim, n


def params(zm, z0, ws, ustar, L):
    zm, z0, ws, ustar, L = map(float, (zm, z0, ws, ustar, L))
    phim, phic, psim, n = stability(zm, L)
    m = ustar * phim / (K * ws)  # eq. 36
    U = ustar * (math.log(zm / z0) + psim) / (K * zm**m)  # eqs. 11, 31
    kappa = K * ustar * zm / (phic * zm**n)  # eqs. 11, 32
    r = 2 + m - n
    mu = (1 + m) / r
    xi = U * zm**r / (r * r * kappa)  # eq. 19
    return dict(m=m, n=n, U=U, kappa=kappa, r=r, mu=mu, xi=xi)


def crosswind_integrated(x, p):
    """f^y(x), eq. 21"""
    x = np.asarray(x, dtype=float)
    out = np.zeros_like(x)
    up = x > 0
    out[up] = p["xi"] ** p["mu"] / sp.gamma(p["mu"]) * x[up] ** (-1 - p["mu"]) * np.exp(-p["xi"] / x[up])
    return out


def sigma_y(x, p, sigma_v):
    """sigma_y = sigma_v x / u_bar(x), eq. 18 and the lines after eq. 9"""
    ubar = sp.gamma(p["mu"]) / sp.gamma(1 / p["r"]) * (p["r"] ** 2 * p["kappa"] / p["U"]) ** (p["m"] / p["r"]) * p["U"] * x ** (p["m"] / p["r"])
    return sigma_v * x / ubar


def footprint(x, y, zm, z0, ws, ustar, L, sigma_v):
    """phi(x, y) per unit area; x upwind distance, y crosswind (arrays)"""
    p = params(zm, z0, ws, ustar, L)
    x = np.asarray(x, dtype=float)
    y = np.asarray(y, dtype=float)
    out = np.zeros(np.broadcast(x, y).shape)
    if p["U"] < 0:
        return out, p
    xb, yb = np.broadcast_arrays(x, y)
    up = xb > 0
    sy = sigma_y(xb[up], p, float(sigma_v))
    out[up] = crosswind_integrated(xb[up], p) * np.exp(-yb[up] ** 2 / (2 * sy**2)) / (math.sqrt(2 * math.pi) * sy)
    return out, p


def rotate(x, y, wd):
    """grid offsets (east, north) from the receptor -> (upwind, crosswind) for wind FROM wd degrees"""
    a = math.radians(wd)
    return x * math.sin(a) + y * math.cos(a), -x * math.cos(a) + y * math.sin(a)


def captured_mass(p, sigma_v, xup, yhalf):
    """integral over 0<x<xup, |y|<yhalf of phi: incomplete-gamma mass times the crosswind capture factor"""
    f = lambda x: float(crosswind_integrated(np.array([x]), p)[0]) * math.erf(yhalf / (math.sqrt(2) * float(sigma_y(np.array([x]), p, sigma_v)[0])))  # noqa
    pk = p["xi"] / (1 + p["mu"])
    pts = sorted({min(pk, xup * 0.999), min(3 * pk, xup * 0.999)})
    val, _ = quad(f, 0.0, xup, points=pts, epsabs=1e-12, epsrel=1e-10, limit=400)
    return val, float(sp.gammaincc(p["mu"], p["xi"] / xup))


def z0_from_loglaw(zm, ws, ustar, L):
    _, _, psim, _ = stability(zm, L)
    return float(zm) * math.exp(psim - K * float(ws) / float(ustar))
