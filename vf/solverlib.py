"""Shared alphabet and helpers for the solver-algebra checks (C02-C07, C10, C11).

Profiles are generated here (own formulas, vf/oracles/most.py), not by the
library's profile generator, so that these checks depend on the solver only."""

import numpy as np

from vf.oracles import most

PROFILE_SETS = ("const", "most_u", "most_aniso", "mostm_s")
AXIS_SETS = ("most_x", "mostm_y")  # a wind component identically zero; MOSTM: no diffusion along the wind
HALOS = (0.0, None, 30.0, 20.0, 13.0, 45.0, 7.0)
GRIDS = (((8, 6), (80.0, 90.0)), ((6, 8), (90.0, 80.0)))
# odd sizes: the padded size is odd too, so only mode counts above it (clamped to it) are accepted
# single-row / single-column grids (the library squeezes the singleton axis away; comparisons reshape both sides)
DEGENERATE_GRIDS = (((8, 1), (80.0, 15.0)), ((1, 6), (10.0, 90.0)))
ODD_GRIDS = (((7, 5), (70.0, 75.0)), ((8, 5), (80.0, 75.0)), ((5, 6), (75.0, 60.0)))


def zgrid(nlay, zm=5.0, z0=0.05):
    """stretched grid with nlay layers between z0 and zm, continued to >= 2 zm"""
    return most.stretched_grid(nlay, zm, z0)


def build_profiles(name, nlay=4):
    """returns z, (u, v, Kx, Ky, Kz) - all float64, positive K, oblique wind"""
    zm, z0 = 5.0, 0.05
    z = zgrid(nlay, zm, z0)
    n = len(z)
    if name == "const":
        one = np.ones(n)
        return z, (2.3 * one, -1.1 * one, 1.7 * one, 0.6 * one, 0.9 * one)
    if name in ("most_u", "most_aniso"):
        L, ust = -50.0, 0.4
        s = most.speed(z, z0, ust, L) + 0.3  # keep the speed positive at the lowest node
        K = most.K(z, ust, L)
        u, v = 0.8 * s, 0.6 * s
        if name == "most_u":
            return z, (u, v, K.copy(), K.copy(), K.copy())
        return z, (u, v, 1.3 * K, 0.6 * K, K.copy())
    if name == "mostm_s":
        L, ust = 80.0, 0.3
        s = most.speed(z, z0, ust, L) + 0.3
        K = most.K(z, ust, L)
        u, v = -0.6 * s, 0.8 * s
        return z, (u, v, K * 0.64, K * 0.36, K.copy())
    if name == "most_x":  # wind EXACTLY along +x (v identically zero), isotropic MOST diffusivity
        L, ust = -50.0, 0.4
        s = most.speed(z, z0, ust, L) + 0.3
        K = most.K(z, ust, L)
        return z, (s.copy(), np.zeros(n), K.copy(), K.copy(), K.copy())
    if name == "mostm_y":  # MOSTM with wind exactly along -y: u identically zero and NO diffusion along the wind (Ky = 0)
        L, ust = 80.0, 0.3
        s = most.speed(z, z0, ust, L) + 0.3
        K = most.K(z, ust, L)
        return z, (np.zeros(n), -s, K.copy(), np.zeros(n), K.copy())
    if name == "const_iso":
        one = np.ones(n)
        return z, (1.9 * one, 1.2 * one, 1.1 * one, 1.1 * one, 1.1 * one)
    raise ValueError(name)


def padded_size(nx, ny, dom, halo):
    dx, dy = dom[0] / nx, dom[1] / ny
    if halo is None:
        halo = max(dom)
    px, py = int(halo / dx), int(halo / dy)
    return nx + 2 * px, ny + 2 * py, px, py


def resolve_modes(modes, nx, ny, dom, halo):
    if modes == "full":
        nxe, nye, _, _ = padded_size(nx, ny, dom, halo)
        return (nxe, nye)
    return tuple(modes)


def effective_modes(modes, nxe, nye):
    """the documented acceptance rule: mode counts must be even; a request that exceeds the padded grid in EITHER
    direction is replaced by the whole padded grid in BOTH; otherwise the surplus must be even in both directions.
    Returns the retained counts, or None where the documented answer is ValueError."""
    nlx, nly = modes
    if nlx % 2 or nly % 2:
        return None
    if nlx > nxe or nly > nye:
        return (nxe, nye)
    if (nxe - nlx) % 2 or (nye - nly) % 2:
        return None
    return (nlx, nly)


def solver():
    from bldfm.solver import steady_state_transport_solver

    return steady_state_transport_solver


def as3d(a, nl):
    a = np.asarray(a)
    if a.ndim == 2:
        return a[None]
    return a


def relerr(a, b, scale=None):
    a = np.asarray(a, dtype=float)
    b = np.asarray(b, dtype=float)
    if a.shape != b.shape:
        return float("inf")
    if scale is None:
        scale = max(float(np.max(np.abs(b))), float(np.max(np.abs(a))), 1e-300)
    d = np.abs(a - b)
    if not np.all(np.isfinite(d)):
        return float("inf")
    return float(np.max(d)) / scale


def fields(seed_rng, ny, nx):
    """three extra (non-basis) source fields: random sign-changing, sparse, smooth"""
    r = seed_rng.standard_normal((ny, nx))
    sp = np.zeros((ny, nx))
    idx = seed_rng.choice(ny * nx, size=3, replace=False)
    sp.flat[idx] = seed_rng.uniform(0.5, 2.0, size=3) * np.array([1, -1, 1])
    yy, xx = np.meshgrid(np.arange(ny), np.arange(nx), indexing="ij")
    sm = 1.0 + np.cos(2 * np.pi * xx / nx + 0.3) * np.sin(2 * np.pi * yy / ny + 0.1)
    return {"random": r, "sparse": sp, "smooth": sm}


def scaled_fields(seed_rng, ny, nx):
    """the same kind of field in other units: trace-gas magnitudes (mol m-2 s-1 of CH4 / N2O are 1e-9..1e-12, every
    cell far below any absolute 'is it zero' threshold) and very large numbers (counts per km2)"""
    r = seed_rng.standard_normal((ny, nx))
    yy, xx = np.meshgrid(np.arange(ny), np.arange(nx), indexing="ij")
    sm = 1.0 + np.cos(2 * np.pi * xx / nx + 0.3) * np.sin(2 * np.pi * yy / ny + 0.1)
    return {"trace": 3e-11 * r, "trace-positive": 2e-12 * sm, "huge": 1e9 * sm}


def impulse(ny, nx, j, i):
    q = np.zeros((ny, nx))
    q[j, i] = 1.0
    return q


def drop_nyquist(a):
    """zero the Nyquist rows/columns of the last two axes (even sizes only)"""
    a = np.asarray(a, dtype=float)
    f = np.fft.fft2(a, axes=(-2, -1))
    ny, nx = a.shape[-2:]
    if nx % 2 == 0:
        f[..., :, nx // 2] = 0
    if ny % 2 == 0:
        f[..., ny // 2, :] = 0
    return np.fft.ifft2(f, axes=(-2, -1)).real


def kz_fn(name):
    """Kz of build_profiles(name) as a function of height (for exact resistances)."""
    if name == "const":
        return lambda zz: 0.9 + 0.0 * np.asarray(zz, dtype=float)
    if name == "const_iso":
        return lambda zz: 1.1 + 0.0 * np.asarray(zz, dtype=float)
    if name in ("most_u", "most_aniso", "most_x"):
        return lambda zz: most.K(zz, 0.4, -50.0)
    if name in ("mostm_s", "mostm_y"):
        return lambda zz: most.K(zz, 0.3, 80.0)
    raise ValueError(name)


def resistance_exact(name, z):
    """integral_{z[0]}^{z[l]} dz/Kz for every node l, by adaptive quadrature"""
    from scipy.integrate import quad

    f = kz_fn(name)
    out = [0.0]
    for a, b in zip(z[:-1], z[1:]):
        val, _ = quad(lambda t: 1.0 / float(f(t)), a, b, epsabs=1e-14, epsrel=1e-13)
        out.append(out[-1] + val)
    return np.array(out)


def resistance_trapezoid(z, Kz):
    dz = np.diff(z)
    return np.concatenate([[0.0], np.cumsum(dz * (0.5 / Kz[:-1] + 0.5 / Kz[1:]))])


def drop_cutoff(a, nlx, nly):
    """remove every horizontal Fourier component at or beyond the retained-mode cut-off
    (|index| >= nl/2 for an even mode count nl; this is the grid's Nyquist component when
    all modes are kept).  What remains is the symmetric part of the retained spectrum."""
    a = np.asarray(a, dtype=float)
    ny, nx = a.shape[-2:]
    nlx, nly = min(nlx, nx), min(nly, ny)
    f = np.fft.fft2(a, axes=(-2, -1))
    ix = np.abs(np.fft.fftfreq(nx, d=1.0 / nx))
    iy = np.abs(np.fft.fftfreq(ny, d=1.0 / ny))
    if nlx % 2 == 0:
        f[..., :, ix >= nlx / 2 - 1e-9] = 0
    if nly % 2 == 0:
        f[..., iy >= nly / 2 - 1e-9, :] = 0
    return np.fft.ifft2(f, axes=(-2, -1)).real


_POLLUTED = set()


def pollute(nxe, nye, dx=10.0, dy=15.0):
    """History hygiene for the algebraic checks: before a case uses a padded grid of nxe x nye cells, run one
    dispersion and one footprint solve whose WHOLE padded grid is an interior filled with large random numbers
    (halo=0), plus a solve with explicit truncated modes and a shifted tower.  On a library that keeps no state this
    changes nothing; a reused padded work array, a memoised phase ramp or wavenumber grid keyed too coarsely then
    carries these numbers into the case and its oracle sees them."""
    key = (nxe, nye, dx, dy)
    if key in _POLLUTED:
        return
    _POLLUTED.add(key)
    S = solver()
    rng = np.random.default_rng(nxe * 1000 + nye)
    z, prof = build_profiles("mostm_s", 4)
    q = 1e3 * (rng.standard_normal((nye, nxe)) + 2.0)
    dom = (nxe * dx, nye * dy)
    for m in ((nxe + 64, nye + 64), (4, 4) if (nxe % 2 == 0 and nye % 2 == 0) else (64, 64)):
        for lv, prec in (([1, 3], "double"), ([2], "double"), ([0, 2, 4], "double"), ([1, 2, 3, 4], "double"), ([1, 3], "single"), ([0, 2, 4], "single")):
            # every level count / precision a case may use: work arrays are typically keyed by the spectrum's shape and dtype
            try:
                S(q, z * 1.3, prof, dom, lv, modes=m, halo=0.0, precision=prec, srf_bg_conc=7.0, meas_pt=(dx, 2 * dy))
                S(q, z * 1.3, prof, dom, lv, modes=m, halo=0.0, precision=prec, footprint=True, meas_pt=(2 * dx, dy))
            except Exception:
                pass  # what is accepted is C11's business
