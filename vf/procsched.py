"""Stateless exploration of the interleavings of FORKED worker processes under a controlled scheduler.

The library's parallel machinery is processes (ProcessPoolExecutor, fork start method) that share a cache directory, a
working directory and whatever the parent had at fork time (module constants, RNG state).  Two or three workers are forked
from this process with the file-system operations they can race on intercepted:

    open for writing (builtins / io.open)      every write of power-of-two index on such a file (0, 1, 2, 4, 8, ...)
    close of such a file                        os.replace / os.rename / os.remove / os.unlink
    os.path.exists / os.stat on watched paths   user-defined points (e.g. around Dataset.to_netcdf)

Before each intercepted operation a worker reports to the scheduler (this process) and blocks until it is released, so
exactly one worker runs between two operations and an execution is fully determined by the sequence of releases.  The
explorer enumerates ALL such sequences with at most `bound` preemptions (a preemption = releasing another worker although
the one that ran last could continue), depth first, replaying a prefix and then running non-preemptively (the iterative
context-bounding scheme of CHESS); every complete execution is handed to the caller's oracle, which inspects what the
workers left on disk.  Each execution starts from a fresh directory; replaying a prefix that does not reproduce the
recorded operations is a hard error (nondeterminism not owned by the scheduler)."""

import builtins
import io
import os
import pickle
import select
import shutil
import struct
import sys
import tempfile
import traceback

from vf import core

WATCH_SUFFIXES = (".npz", ".nc", ".part", ".tmp", ".pkl")


def _send(fd, obj):
    data = pickle.dumps(obj)
    os.write(fd, struct.pack("<I", len(data)) + data)


def _recv(fd):
    hdr = b""
    while len(hdr) < 4:
        b = os.read(fd, 4 - len(hdr))
        if not b:
            return None
        hdr += b
    n = struct.unpack("<I", hdr)[0]
    buf = b""
    while len(buf) < n:
        b = os.read(fd, n - len(buf))
        if not b:
            return None
        buf += b
    return pickle.loads(buf)


class _Hooks:
    """installed in a worker child"""

    def __init__(self, to_parent, from_parent, watch_dir):
        self.to_parent, self.from_parent = to_parent, from_parent
        self.watch_dir = os.path.realpath(watch_dir)
        self.nops = 0

    def point(self, name, path=""):
        self.nops += 1
        _send(self.to_parent, ("op", name, os.path.basename(str(path))[-40:]))
        msg = _recv(self.from_parent)
        if msg != "go":
            os._exit(7)

    def watched(self, path):
        try:
            p = os.path.realpath(os.fspath(path))
        except TypeError:
            return False
        return p.startswith(self.watch_dir + os.sep) or p == self.watch_dir

    def install(self):
        hooks = self
        real_open = io.open
        real_builtin_open = builtins.open

        class WFile:
            def __init__(self, f, path):
                self._f, self._path, self._n = f, path, 0

            def write(self, b):
                k = self._n
                self._n += 1
                if k & (k - 1) == 0:  # 0, 1, 2, 4, 8, ...
                    hooks.point("write#%d" % k, self._path)
                return self._f.write(b)

            def close(self):
                if not self._f.closed:
                    hooks.point("close", self._path)
                return self._f.close()

            def __enter__(self):
                return self

            def __exit__(self, *a):
                self.close()
                return False

            def __getattr__(self, k):
                return getattr(self._f, k)

            def __iter__(self):
                return iter(self._f)

        def popen(file, mode="r", *a, **k):
            if isinstance(file, (str, bytes, os.PathLike)) and hooks.watched(file):
                if any(c in mode for c in "wa+x"):
                    hooks.point("open-w", file)
                    return WFile(real_open(file, mode, *a, **k), file)
                hooks.point("open-r", file)
            return real_open(file, mode, *a, **k)

        io.open = popen
        builtins.open = popen

        def wrap2(mod, name, label):
            real = getattr(mod, name)

            def w(src, dst=None, *a, **k):
                if hooks.watched(src) or (dst is not None and hooks.watched(dst)):
                    hooks.point(label, dst if dst is not None else src)
                return real(src, *a, **k) if dst is None else real(src, dst, *a, **k)

            setattr(mod, name, w)

        wrap2(os, "replace", "replace")
        wrap2(os, "rename", "rename")
        wrap2(os, "remove", "remove")
        wrap2(os, "unlink", "unlink")
        real_stat = os.stat

        def pstat(path, *a, **k):
            if isinstance(path, (str, bytes, os.PathLike)) and hooks.watched(path) and os.path.splitext(os.fspath(path))[1] in WATCH_SUFFIXES:
                hooks.point("stat", path)
            return real_stat(path, *a, **k)

        os.stat = pstat
        self._real_builtin_open = real_builtin_open


HOOKS = None  # set in worker children; user code may call HOOKS.point("name") for extra scheduling points


def point(name, path=""):
    if HOOKS is not None:
        HOOKS.point(name, path)


def run_once(workers, prefix, workdir):
    """fork the workers, release them according to `prefix` (list of worker indices), then non-preemptively (the worker
    that ran last continues while it can; otherwise the lowest-numbered waiting worker).  Returns (trace, results) where
    trace = [(worker, opname, file, enabled-before, ran_last_still_enabled)], results = per-worker ("ok", value) | ("raised", type)."""
    global HOOKS
    n = len(workers)
    chans = []
    pids = []
    sys.stdout.flush()
    sys.stderr.flush()
    for k, fn in enumerate(workers):
        c2p_r, c2p_w = os.pipe()
        p2c_r, p2c_w = os.pipe()
        pid = os.fork()
        if pid == 0:
            code = 0
            try:
                os.close(c2p_r)
                os.close(p2c_w)
                for (r_, w_) in chans:
                    os.close(r_)
                    os.close(w_)
                os.chdir(workdir)
                HOOKS = _Hooks(c2p_w, p2c_r, workdir)
                HOOKS.install()
                HOOKS.point("start")
                try:
                    val = ("ok", fn())
                except Exception as e:  # noqa - a worker that raises is an outcome, not a harness failure
                    val = ("raised", "%s: %s" % (type(e).__name__, str(e)[:160]))
                _send(c2p_w, ("done", val))
            except BaseException:
                traceback.print_exc()
                code = 3
            finally:
                os._exit(code)
        os.close(c2p_w)
        os.close(p2c_r)
        chans.append((c2p_r, p2c_w))
        pids.append(pid)
    waiting = {}   # worker -> (opname, file) it is blocked before
    results = {}
    trace = []
    last = None
    step = 0

    def collect(k, timeout=120.0):
        r, _, _ = select.select([chans[k][0]], [], [], timeout)
        if not r:
            raise core.HarnessError("worker %d did not reach a scheduling point within %.0f s" % (k, timeout))
        msg = _recv(chans[k][0])
        if msg is None:
            raise core.HarnessError("worker %d died without reporting" % k)
        if msg[0] == "op":
            waiting[k] = (msg[1], msg[2])
        else:
            results[k] = msg[1]

    try:
        for k in range(n):
            collect(k)  # everybody parks at "start"
        while waiting:
            enabled = sorted(waiting)
            cont = last in waiting
            if step < len(prefix):
                k = prefix[step]
                if k not in waiting:
                    raise core.HarnessError("replay diverged: schedule releases worker %d at step %d, enabled are %r" % (k, step, enabled))
            else:
                k = last if cont else enabled[0]
            op = waiting.pop(k)
            trace.append((k, op[0], op[1], enabled, cont))
            _send(chans[k][1], "go")
            collect(k)
            last = k
            step += 1
    finally:
        for (r_, w_), pid in zip(chans, pids):
            try:
                os.close(r_)
                os.close(w_)
            except OSError:
                pass
            try:
                os.waitpid(pid, 0)
            except OSError:
                pass
    return trace, [results.get(k) for k in range(n)]


def explore(make_workers, oracle, bound=2, max_executions=20000, label=""):
    """make_workers(workdir) -> list of callables; oracle(workdir, trace, results) -> list of violation messages.
    Returns dict(executions, max_steps, violations=[(schedule, trace, messages)], distinct_traces, capped)."""
    root = tempfile.mkdtemp(prefix="procsched_", dir=os.getcwd())
    out = {"executions": 0, "max_steps": 0, "violations": [], "capped": False, "bound": bound}
    seen_traces = set()
    stack = [[]]
    try:
        while stack:
            prefix = stack.pop()
            if out["executions"] >= max_executions:
                out["capped"] = True
                break
            wd = os.path.join(root, "x%d" % out["executions"])
            os.makedirs(wd)
            trace, results = run_once(make_workers(wd), prefix, wd)
            out["executions"] += 1
            out["max_steps"] = max(out["max_steps"], len(trace))
            sched = [t[0] for t in trace]
            if [t[0] for t in trace[: len(prefix)]] != list(prefix):
                raise core.HarnessError("replay of prefix %r produced %r" % (prefix, sched[: len(prefix)]))
            seen_traces.add(tuple((t[0], t[1]) for t in trace))
            msgs = oracle(wd, trace, results)
            if msgs:
                out["violations"].append((sched, [(t[0], t[1], t[2]) for t in trace], msgs))
            shutil.rmtree(wd, ignore_errors=True)
            # branch: at every step beyond the prefix, release another enabled worker instead - if the preemption budget allows
            pre = 0
            last = None
            for i, (k, opn, fl, enabled, cont) in enumerate(trace):
                if i >= len(prefix):
                    for alt in enabled:
                        if alt == k:
                            continue
                        cost = pre + (1 if (last in enabled and alt != last) else 0)
                        if cost <= bound:
                            stack.append(sched[:i] + [alt])
                if last in enabled and k != last:
                    pre += 1
                last = k
    finally:
        shutil.rmtree(root, ignore_errors=True)
    out["distinct_traces"] = len(seen_traces)
    return out
