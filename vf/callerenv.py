"""The caller's PROCESS ENVIRONMENT as an explored dimension, for any check.

A property stated "for every call" does not say "in a process with numpy's default error state, default warning filters,
logging at WARNING, the main thread and the directory bldfm was imported in".  The environments of errorpaths.CALLER_ENVS
(numpy error state raise / ignore, warnings as errors / silenced, a DEBUG logging set-up, another / a read-only working
directory, a seeded global RNG, terse print options, a non-main thread, unusual OMP/TZ/LANG/TMPDIR variables) are entered
AROUND EVERY PUBLIC LIBRARY CALL of a check's own case function, in a pristine forked child (first use happens inside the
environment), by replacing the public entry points with wrappers.  The case function runs twice in that child - under the
environment first, then in the ordinary one - and

  * every violation its own oracle reports under the environment is a violation (the result changed with the environment);
  * the two runs' sequences of (entry point, returned / raised) are compared: the first call that RAISES under the
    environment but returned in the ordinary one is a violation (the library answers this call - just not for this caller);
    calls that raise in both (refusals the property allows) are nobody's business.

The wrappers restore the environment after each call, so what the harness' own oracles compute in between runs in the
ordinary environment (an oracle that divides by zero on purpose must not trip over np.seterr(all="raise"))."""

import importlib
import logging
import os
import threading

import numpy as np

from vf import core
from vf import errorpaths

PUBLIC = [
    ("bldfm.solver", "steady_state_transport_solver"), ("bldfm", "steady_state_transport_solver"),
    ("bldfm.pbl_model", "vertical_profiles"), ("bldfm", "vertical_profiles"), ("bldfm.pbl_model", "phi"), ("bldfm.pbl_model", "psi"),
    ("bldfm.interface", "run_bldfm_single"), ("bldfm.interface", "run_bldfm_timeseries"), ("bldfm.interface", "run_bldfm_multitower"), ("bldfm.interface", "run_bldfm_parallel"),
    ("bldfm", "run_bldfm_single"), ("bldfm", "run_bldfm_timeseries"), ("bldfm", "run_bldfm_multitower"), ("bldfm", "run_bldfm_parallel"),
    ("bldfm.ffm_kormann_meixner", "estimateFootprint"), ("bldfm.ffm_kormann_meixner", "estimateZ0"),
    ("bldfm.utils", "get_source_area"), ("bldfm.utils", "source_area_contribution"), ("bldfm.utils", "compute_wind_fields"), ("bldfm.utils", "point_measurement"),
    ("bldfm.plotting", "extract_percentile_contour"), ("bldfm.plotting.footprint", "extract_percentile_contour"),
    ("bldfm.io", "save_footprints_to_netcdf"), ("bldfm.io", "load_footprints_from_netcdf"), ("bldfm", "save_footprints_to_netcdf"), ("bldfm", "load_footprints_from_netcdf"),
    ("bldfm.config_parser", "parse_config_dict"), ("bldfm.config_parser", "load_config"),
]
ENVS = ("errstate-raise", "warnings-are-errors", "logging-debug-handler", "printoptions", "cwd-elsewhere", "non-main-thread", "global-rng-seeded", "default-float-promotion-env")


def _enter(env):
    if env == "logging-debug-handler":
        back0 = errorpaths._enter_env(env)
        lg = logging.getLogger("bldfm")
        subs = [l for n, l in logging.root.manager.loggerDict.items() if n.startswith("bldfm") and isinstance(l, logging.Logger)]
        saved = [(l, l.level) for l in [lg] + subs]
        for l, _ in saved:
            l.setLevel(logging.DEBUG)

        def back():
            for l, lv in saved:
                l.setLevel(lv)
            back0()
        return back
    if env == "printoptions":
        old = np.get_printoptions()
        np.set_printoptions(precision=0, threshold=3, edgeitems=1, suppress=True)
        return lambda: np.set_printoptions(**old)
    return errorpaths._enter_env(env)


def _summ(r, out=None, depth=0):
    """the numbers in a returned value (arrays, scalars, nested tuples / lists / dicts), in a fixed order"""
    out = [] if out is None else out
    if depth > 4 or len(out) > 64:
        return out
    if isinstance(r, np.ndarray):
        if r.dtype.kind in "fiuc" and r.size <= 4_000_000:
            out.append(np.array(r, dtype=complex if r.dtype.kind == "c" else float, copy=True))
    elif isinstance(r, (bool, int, float, complex, np.number)):
        out.append(np.array([r], dtype=complex if isinstance(r, (complex, np.complexfloating)) else float))
    elif isinstance(r, (tuple, list)):
        for x in r[:40]:
            _summ(x, out, depth + 1)
    elif isinstance(r, dict):
        for k in sorted(r, key=str)[:40]:
            _summ(r[k], out, depth + 1)
    return out


def _argsig(a, k):
    """which call this is: a digest of the numbers and plain values among the arguments (objects count by type name only)"""
    import hashlib

    h = hashlib.sha256()

    def feed(x, depth=0):
        if depth > 3:
            return
        if isinstance(x, np.ndarray):
            h.update(str(x.shape).encode())
            h.update(np.ascontiguousarray(x).tobytes() if x.dtype.kind in "fiucb" and x.size <= 4_000_000 else b"arr")
        elif isinstance(x, (bool, int, float, complex, str, bytes, type(None), np.number, np.bool_)):
            h.update(repr(x).encode())
        elif isinstance(x, (tuple, list)):
            h.update(b"(")
            for y in x[:64]:
                feed(y, depth + 1)
        elif isinstance(x, dict):
            for kk in sorted(x, key=str)[:64]:
                h.update(str(kk).encode())
                feed(x[kk], depth + 1)
        else:
            h.update(type(x).__name__.encode())
    feed(list(a))
    feed(k)
    return h.hexdigest()[:16]


def _differs(a, b):
    if len(a) != len(b):
        return "%d numeric components instead of %d" % (len(a), len(b))
    for i, (x, y) in enumerate(zip(a, b)):
        if x.shape != y.shape:
            return "component %d has shape %s instead of %s" % (i, x.shape, y.shape)
        fin = np.isfinite(y)
        if not np.array_equal(np.isfinite(x), fin):
            return "component %d has other non-finite entries" % i
        sc = max(float(np.abs(y[fin]).max()) if fin.any() else 0.0, 1e-300)
        e = float(np.abs(x[fin] - y[fin]).max()) / sc if fin.any() else 0.0
        if not e <= 1e-9:
            return "component %d differs by %.2e of its maximum" % (i, e)
    return None


def _install(env, log):
    """replace the public entry points by wrappers; returns the undo function"""
    undo = []
    depth = [0]
    for modname, name in PUBLIC:
        try:
            mod = importlib.import_module(modname)
        except Exception:  # noqa
            continue
        f = getattr(mod, name, None)
        if f is None or getattr(f, "_callerenv", False):
            continue

        def make(f=f, name=name):
            def w(*a, **k):
                outer = depth[0] == 0
                sig = _argsig(a, k) if outer else None
                depth[0] += 1
                back = _enter(env) if (outer and env is not None) else (lambda: None)
                try:
                    r = f(*a, **k)
                    if outer:
                        log.append((name, "returned", _summ(r), sig))
                    return r
                except core.HarnessError:
                    raise
                except BaseException as e:  # noqa
                    if outer:
                        log.append((name, "raised %s: %s" % (type(e).__name__, str(e)[:120]), None, sig))
                    raise
                finally:
                    back()
                    depth[0] -= 1
            w._callerenv = True
            w.__name__ = getattr(f, "__name__", name)
            w.__doc__ = getattr(f, "__doc__", None)
            w.__wrapped__ = f
            return w
        setattr(mod, name, make())
        undo.append((mod, name, f))

    def back():
        for mod, name, f in undo:
            setattr(mod, name, f)
    return back


def case_in_env(case):
    env = case["env"]
    mod = importlib.import_module(case["mod"])
    fn = getattr(mod, case["fn"])
    out = {}

    def run(e, key):
        log = []
        undo = _install(e, log)
        try:
            box = {}

            def call():
                try:
                    box["res"] = fn(case["inner"]) or {}
                except core.HarnessError:
                    raise
                except BaseException as ex:  # noqa - the case function has no refusal semantics for this call
                    box["exc"] = ex
            if e == "non-main-thread":
                t = threading.Thread(target=call)
                t.start()
                t.join()
            else:
                call()
        finally:
            undo()
        out[key] = (log, box)

    # third-party packages the library imports lazily are imported BEFORE the environment is entered: what netCDF4 or xarray
    # warn about at import time (binary-compatibility notices) is not the library's behaviour under the caller's filters
    import warnings as _w
    with _w.catch_warnings():
        _w.simplefilter("ignore")
        for m_ in ("yaml", "scipy.special", "scipy.integrate", "numba", "xarray", "netCDF4", "h5netcdf", "pandas", "matplotlib"):
            try:
                importlib.import_module(m_)
            except Exception:  # noqa
                pass
    here = os.getcwd()
    for key, e in (("env", env), ("ordinary", None)):
        d = os.path.join(here, "run_" + key)  # each run in a directory of its own (relative cache / output paths start empty)
        os.makedirs(d, exist_ok=True)
        os.chdir(d)
        run(e, key)
        os.chdir(here)
    (log_e, box_e), (log_o, box_o) = out["env"], out["ordinary"]
    if "exc" in box_o:
        raise core.HarnessError("case %r fails in the ordinary environment: %r" % (case["inner"], box_o["exc"]))
    v = []
    for k in range(min(len(log_e), len(log_o))):
        if log_e[k][0] != log_o[k][0] or log_e[k][3] != log_o[k][3]:
            break  # another call (the case function itself took another path): the two sequences are no longer comparable
        if log_e[k][:2] != log_o[k][:2]:
            if log_e[k][0] == log_o[k][0] and log_e[k][1].startswith("raised") and log_o[k][1] == "returned":
                v.append({"sub": "caller-environment", "sig": "caller-environment/%s/raises/%s" % (env, log_e[k][0]),
                          "msg": "[caller environment %s] library call #%d %s %s; the same call in the ordinary environment returns" % (env, k, log_e[k][0], log_e[k][1])})
            break
        if log_e[k][1] == "returned":
            d = _differs(log_e[k][2], log_o[k][2])
            if d:
                v.append({"sub": "caller-environment", "sig": "caller-environment/%s/other-result/%s" % (env, log_e[k][0]),
                          "msg": "[caller environment %s] library call #%d %s returns another result than the same call in the ordinary environment: %s" % (env, k, log_e[k][0], d)})
                break
    res = box_e.get("res", {})
    if "exc" in box_e and not v:
        v.append({"sub": "caller-environment", "sig": "caller-environment/%s/case-failed" % env, "msg": "[caller environment %s] the case that passes in the ordinary environment fails with %r" % (env, box_e["exc"])})
    for x in res.get("v", []):
        x = dict(x)
        x["sub"] = "caller-environment"  # (the signature stays the oracle's own: a known finding is the same finding in any environment)
        x["msg"] = "[caller environment %s, entered around every public library call] %s" % (env, x.get("msg", ""))
        v.append(x)
    for x in box_o.get("res", {}).get("v", []):
        x = dict(x)
        x["msg"] = "[ordinary environment, after a session under %s] %s" % (env, x.get("msg", ""))
        v.append(x)
    return {"v": v[:6], "nt": True, "n": len(log_e) + len(log_o), "obs": {"environment": env, "library_calls_under_environment": len(log_e), "raised_under_environment": sum(1 for l in log_e if l[1] != "returned")}}


def run(ctx, fn, inner_cases, envs=ENVS, sub="the caller's process environment entered around every public library call (refusing only where the ordinary environment refuses)", timeout=1800):
    cases = [{"env": e, "mod": fn.__module__, "fn": fn.__name__, "inner": ic} for e in envs for ic in inner_cases]
    return core.run_forked(ctx, case_in_env, cases, sub=sub, timeout=timeout)
