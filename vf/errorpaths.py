"""Error paths and recovery paths as part of the explored histories.

A property that holds "for every call" also holds for the call that comes AFTER something went wrong: a request the
library refused, a file an interrupted run left half-written, a dependency that cannot be loaded.  The environments
below are finite and enumerated completely; each is set up in a PRISTINE child forked from a parent that has imported
bldfm but never solved (so "first use" really is the first use), then the calling check's own case function runs in that
child with its own oracle.  What the failing step itself does (raise, warn) is not judged - only what follows.

  wisdom-*            ./fftw_wisdom.pkl as an interrupted exit hook / another program could have left it: zero bytes,
                      first half of a valid file, random bytes, a valid pickle of the wrong type
  after-<refusal>     one refused solver call first: invalid precision, odd mode count, a source map with a non-numeric
                      cell (object array), a level beyond the column, profiles shorter than z, a 1-D source
  after-two-refusals  two different refused calls in a row

pyfftw blocked (import fails) needs a fresh interpreter; see blocked_import()."""

import importlib
import os
import pickle
import subprocess
import sys

import numpy as np

from vf import core
from vf import solverlib as sl

WISDOM_ENVS = ("wisdom-zero-bytes", "wisdom-truncated", "wisdom-random-bytes", "wisdom-wrong-pickle")
REFUSALS = ("precision", "odd-modes", "object-source", "level-beyond-column", "short-profiles", "source-1d")
ENVS = WISDOM_ENVS + tuple("after-" + r for r in REFUSALS) + ("after-two-refusals",)


def _valid_wisdom_bytes():
    import pyfftw

    return pickle.dumps(pyfftw.export_wisdom())


def refused_call(kind):
    """one call the library refuses; returns the exception type name (or None if it was answered)"""
    S = sl.solver()
    z, prof = sl.build_profiles("most_aniso", 4)
    q = np.random.default_rng(1).random((6, 8))
    kw = dict(srf_flx=q, z=z, profiles=prof, domain=(80.0, 90.0), levels=[2, 4], modes=(8, 6), halo=13.0, precision="double", srf_bg_conc=1.5)
    if kind == "precision":
        kw["precision"] = "half"
    elif kind == "odd-modes":
        kw["modes"] = (5, 4)
    elif kind == "object-source":
        qo = q.astype(object)
        qo[2, 3] = "n/a"
        kw["srf_flx"] = qo
    elif kind == "level-beyond-column":
        kw["levels"] = [2, 99]
    elif kind == "short-profiles":
        kw["profiles"] = tuple(p[:-2] for p in prof)
    elif kind == "source-1d":
        kw["srf_flx"] = q.ravel()
    else:
        raise core.HarnessError("unknown refusal %r" % kind)
    try:
        S(**kw)
    except Exception as e:  # noqa - whatever the refusal looks like
        return type(e).__name__
    return None


def prepare(env):
    if env == "none":
        return None
    if env.startswith("wisdom-"):
        good = _valid_wisdom_bytes()
        data = {"wisdom-zero-bytes": b"", "wisdom-truncated": good[: max(1, len(good) // 2)],
                "wisdom-random-bytes": np.random.default_rng(5).integers(0, 256, 300, dtype=np.uint8).tobytes(),
                "wisdom-wrong-pickle": pickle.dumps({"not": "wisdom"})}[env]
        with open("fftw_wisdom.pkl", "wb") as f:
            f.write(data)
        return "written %d bytes" % len(data)
    if env == "after-two-refusals":
        return [refused_call("object-source"), refused_call("precision")]
    if env.startswith("after-"):
        return refused_call(env[len("after-"):])
    raise core.HarnessError("unknown environment %r" % env)


def case_wrapped(case):
    note = prepare(case["env"])
    mod = importlib.import_module(case["mod"])
    res = getattr(mod, case["fn"])(case["inner"]) or {}
    for v in res.get("v", []):
        v["sub"] = "error-path"
        v["sig"] = "error-path/%s/%s" % (case["env"], v.get("sig", "?"))
        v["msg"] = "[environment %s (%s)] %s" % (case["env"], note, v.get("msg", ""))
    res.setdefault("obs", {})
    if isinstance(res["obs"], dict):
        res["obs"]["environment"] = case["env"]
        res["obs"]["failing_step"] = repr(note)
    return res


def run(ctx, fn, inner_cases, envs=ENVS, sub="after a refused call / with an unreadable wisdom file"):
    cases = [{"env": e, "mod": fn.__module__, "fn": fn.__name__, "inner": ic} for e in envs for ic in inner_cases]
    return core.run_forked(ctx, case_wrapped, cases, sub=sub)


# ------------------------------------------------------------------------------------------------------------------
_BLOCKED = r"""
import sys, os, pickle, logging
logging.disable(logging.CRITICAL)
sys.modules['pyfftw'] = None          # 'import pyfftw' now raises ImportError
sys.path.insert(0, %(src)r); sys.path.insert(0, %(verif)r)
out = {}
try:
    from bldfm.solver import steady_state_transport_solver as S
except ImportError as e:
    out = {'import': 'refused: %%s' %% e}
else:
    import numpy as np
    from vf import callforms
    out = {'import': 'ok'}
    for name, kw in callforms.requests().items():
        try:
            _, c, f = S(**kw)
            out[name] = (np.asarray(c), np.asarray(f))
        except Exception as e:
            out[name] = 'raised %%s: %%s' %% (type(e).__name__, e)
with open(%(path)r, 'wb') as fh:
    pickle.dump(out, fh)
os._exit(0)
"""


def case_blocked_pyfftw(case):
    """fresh interpreter in which pyfftw cannot be imported: importing the solver either fails (nothing to judge) or every
    request of callforms.requests() is answered as in the normal process"""
    from vf import callforms

    path = os.path.join(os.getcwd(), "blocked.pkl")
    code = _BLOCKED % {"src": core.SRC, "verif": core.VERIF, "path": path}
    r = subprocess.run([sys.executable, "-c", code], capture_output=True, text=True, cwd=os.getcwd(), timeout=600)
    if not os.path.exists(path):
        raise core.HarnessError("blocked-import child produced nothing:\n" + r.stderr[-1500:])
    with open(path, "rb") as fh:
        out = pickle.load(fh)
    os.unlink(path)
    if out["import"] != "ok":
        return {"v": [], "nt": False, "n": 1, "obs": {"import": out["import"][:80]}}
    S = sl.solver()
    v = []
    n = 0
    for name, kw in callforms.requests().items():
        _, c0, f0 = S(**kw)
        n += 2
        got = out.get(name)
        if isinstance(got, str):
            v.append({"sub": "error-path", "sig": "error-path/no-pyfftw/raised", "msg": "without pyfftw the library imports, but request %s %s" % (name, got[:120])})
            continue
        tol = 1e-9 if kw.get("precision") == "double" else 2e-5
        for nm, a, b in (("conc", got[0], np.asarray(c0)), ("flux", got[1], np.asarray(f0))):
            e = sl.relerr(a, b, max(np.abs(b).max(), 1e-300))
            if not e <= tol:
                v.append({"sub": "error-path", "sig": "error-path/no-pyfftw/%s" % nm, "msg": "without pyfftw the library imports and answers request %s, but %s differs from the normal answer by %.2e of the field maximum" % (name, nm, e)})
    return {"v": v[:6], "nt": True, "n": n, "obs": {"import": "ok"}}


# ------------------------------------------------------------------------------------------------------------------
# The numerical thread setting.  bldfm.utils.parallelize compiles a kernel with parallel=(NUM_THREADS > 1) and cache=True;
# numba's on-disk cache is not keyed on that flag, so whichever flavour was compiled first for the current source is what
# every later process loads - a process that merely SETS NUM_THREADS = 4 may still run the serial machine code.  To make a
# thread setting mean something, the case runs in a pristine forked child whose numba cache directory is fresh and whose
# FIRST kernel call already happens under the thread setting, so the threaded flavour is really compiled and executed.
def case_threaded(case):
    import numba

    from bldfm import config as rt

    cdir = case.get("numba_cache_dir") or os.path.join(os.getcwd(), "numba_cache_threads_first")
    os.makedirs(cdir, exist_ok=True)
    numba.config.CACHE_DIR = cdir
    rt.NUM_THREADS = case["threads"]
    mod = importlib.import_module(case["mod"])
    res = getattr(mod, case["fn"])(case["inner"]) or {}
    for v in res.get("v", []):
        v["sub"] = "threads"
        v["sig"] = "threads/%d/%s" % (case["threads"], v.get("sig", "?"))
        v["msg"] = "[numerical threads = %d, threaded kernels compiled first] %s" % (case["threads"], v.get("msg", ""))
    res.setdefault("obs", {})
    if isinstance(res["obs"], dict):
        res["obs"]["threads"] = case["threads"]
        try:
            from bldfm.solver import ivp_solver  # noqa - report which flavours this process compiled
            res["obs"]["parallel_flavour_compiled"] = True
        except Exception:  # noqa
            pass
    return res


def run_threaded(ctx, fn, inner_cases, threads=(2, 3, 4), sub="numerical threads > 1 (threaded kernels really compiled)"):
    """one shared fresh numba cache directory per check run: the first child compiles the threaded flavour, the others load it"""
    shared = os.path.join(ctx.tmp_root, "numba_cache_threads_first")
    os.makedirs(shared, exist_ok=True)
    inner_cases = list(inner_cases)
    cases = [{"threads": t, "mod": fn.__module__, "fn": fn.__name__, "inner": ic, "numba_cache_dir": shared} for t in threads for ic in inner_cases]
    if not cases:
        return []
    first = core.run_forked(ctx, case_threaded, cases[:1], sub=sub, timeout=1800)  # compiles
    return first + core.run_forked(ctx, case_threaded, cases[1:], sub=sub, timeout=1800)


# ------------------------------------------------------------------------------------------------------------------
# The CALLER'S process environment.  A result depends on the arguments only - not on the numpy error state the caller works
# under, on warnings being errors, on the logging set-up, the working directory, the global random state, the print options
# or the thread that calls.  Each environment is entered in a pristine forked child (first use happens INSIDE it); every
# request of callforms.requests() is then either refused (an exception - "refuse or be right") or answered as a fresh ordinary
# process answers it; afterwards the ordinary environment is restored and every request must be answered, and answered
# right - which is how a setting the library leaked (np.seterr, a warnings filter, a changed directory) shows.
CALLER_ENVS = ("errstate-raise", "errstate-ignore", "warnings-are-errors", "warnings-silenced", "cwd-elsewhere", "cwd-read-only", "logging-debug-handler",
               "global-rng-seeded", "printoptions", "non-main-thread", "default-float-promotion-env")


def _enter_env(env):
    import logging
    import random
    import warnings

    if env == "errstate-raise":
        # division by zero, invalid operations and overflow raise; underflow (exp of a very negative number flushing to
        # zero, which any decaying solution does) stays silent - a caller who makes THAT an error has asked for the exception
        old = np.seterr(divide="raise", invalid="raise", over="raise", under="ignore")
        return lambda: np.seterr(**old)
    if env == "errstate-ignore":
        old = np.seterr(all="ignore")
        return lambda: np.seterr(**old)
    if env in ("warnings-are-errors", "warnings-silenced"):
        saved = warnings.filters[:]
        if env == "warnings-are-errors":
            # numerical and user warnings become errors; deprecation notices of third-party packages (numpy about netCDF4,
            # xarray about pandas) are not the library's to avoid
            warnings.simplefilter("error", RuntimeWarning)
            warnings.simplefilter("error", UserWarning)
        else:
            warnings.simplefilter("ignore")

        def back():
            warnings.filters[:] = saved
        return back
    if env in ("cwd-elsewhere", "cwd-read-only"):
        here = os.getcwd()
        d = os.path.join(here, "elsewhere")
        os.makedirs(d, exist_ok=True)
        os.chdir(d)
        if env == "cwd-read-only":
            os.chmod(d, 0o555)

        def back():
            os.chmod(d, 0o755)
            os.chdir(here)
        return back
    if env == "logging-debug-handler":
        root = logging.getLogger()
        lvl, handlers, dis = root.level, root.handlers[:], logging.root.manager.disable
        logging.disable(logging.NOTSET)
        h = logging.StreamHandler(open(os.devnull, "w"))
        root.addHandler(h)
        root.setLevel(logging.DEBUG)

        def back():
            root.handlers[:] = handlers
            root.setLevel(lvl)
            logging.disable(dis)
        return back
    if env == "global-rng-seeded":
        st, st2 = np.random.get_state(), random.getstate()
        np.random.seed(12345)
        random.seed(12345)

        def back():
            np.random.set_state(st)
            random.setstate(st2)
        return back
    if env == "printoptions":
        old = np.get_printoptions()
        np.set_printoptions(precision=2, threshold=5, suppress=True)
        return lambda: np.set_printoptions(**old)
    if env == "default-float-promotion-env":
        old = {k: os.environ.get(k) for k in ("OMP_NUM_THREADS", "TZ", "LANG", "LC_ALL", "LC_NUMERIC", "TMPDIR")}
        os.environ.update({"OMP_NUM_THREADS": "1", "TZ": "Pacific/Kiritimati", "LANG": "de_DE.UTF-8", "LC_ALL": "de_DE.UTF-8", "LC_NUMERIC": "de_DE.UTF-8", "TMPDIR": "/nonexistent-tmpdir"})
        import time as _t
        try:
            _t.tzset()
        except Exception:  # noqa
            pass

        def back():
            for k, v_ in old.items():
                if v_ is None:
                    os.environ.pop(k, None)
                else:
                    os.environ[k] = v_
        return back
    if env == "non-main-thread":
        return lambda: None
    raise core.HarnessError("unknown caller environment %r" % env)


def case_caller_refs(case):
    from vf import callforms

    S = sl.solver()
    out = {}
    for name, kw in callforms.requests().items():
        g, c, f = S(**kw)
        out[name] = (np.asarray(c), np.asarray(f), [np.asarray(a) for a in g])
    with open(case["path"], "wb") as fh:
        pickle.dump(out, fh)
    return {"v": [], "nt": True, "n": len(out)}


def case_caller_env(case):
    import threading

    from vf import callforms

    env = case["env"]
    with open(case["refs"], "rb") as fh:
        refs = pickle.load(fh)
    S = sl.solver()
    reqs = callforms.requests()
    v = []
    n = 0
    refused = {}

    def judge(phase, name, kw, may_refuse):
        box = {}

        def call():
            try:
                box["r"] = S(**kw)
            except BaseException as e:  # noqa - a refusal of any kind
                box["e"] = e
        if env == "non-main-thread" and phase == "inside":
            t = threading.Thread(target=call)
            t.start()
            t.join()
        else:
            call()
        if "e" in box:
            if may_refuse:
                refused[name] = type(box["e"]).__name__
            else:
                v.append({"sub": "caller-environment", "sig": "caller-environment/%s/raises-afterwards" % env, "msg": "after a session under [%s] and back in the ordinary environment, request %s raises %s: %s" % (env, name, type(box["e"]).__name__, str(box["e"])[:160])})
            return
        g, c, f = box["r"]
        c0, f0, g0 = refs[name]
        tol = 1e-12 if kw.get("precision") == "double" else 1e-6
        for nm, a, b in (("conc", np.asarray(c), c0), ("flux", np.asarray(f), f0)):
            e = sl.relerr(a, b, max(np.abs(b).max(), 1e-300)) if a.shape == b.shape else float("inf")
            if not e <= tol:
                v.append({"sub": "caller-environment", "sig": "caller-environment/%s/%s" % (env, phase), "msg": "[%s, %s] request %s: %s differs from the answer of a fresh ordinary process by %.2e of the field maximum" % (env, phase, name, nm, e)})
        for i in range(3):
            if not np.array_equal(np.asarray(g[i]), g0[i]):
                v.append({"sub": "caller-environment", "sig": "caller-environment/%s/%s-grid" % (env, phase), "msg": "[%s, %s] request %s: grid[%d] differs from the fresh ordinary process" % (env, phase, name, i)})

    back = _enter_env(env)
    try:
        for name, kw in reqs.items():
            n += 1
            judge("inside", name, kw, True)
    finally:
        back()
    for name, kw in reqs.items():
        n += 1
        judge("afterwards", name, kw, False)
    return {"v": v[:6], "nt": True, "n": n, "obs": {"environment": env, "refused_inside": refused}}


def run_caller_envs(ctx, envs=CALLER_ENVS, sub="the caller's process environment (numpy error state, warnings, logging, cwd, RNG, thread): refuse or be right; nothing leaks"):
    path = os.path.join(ctx.tmp_root, "caller_env_refs.pkl")
    core.run_forked(ctx, case_caller_refs, [{"path": path}], sub=sub)
    return core.run_forked(ctx, case_caller_env, [{"env": e, "refs": path} for e in envs], sub=sub)
