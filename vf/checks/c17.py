"""C17 - tower geolocation: local metres and lat/lon are mutual inverses, well oriented.

Lattice: reference latitudes {-60,-45,-10,0,10,45,60} x longitudes {-180,-179.99,-90,0,11.5,179.99,180}
x distances {10, 50, 500, 5000 m} x 24 azimuths (thorough: 72 azimuths, +{1, 2000} m); scalar and array
calls, float and integer-typed offsets; tower coordinates through parse_config_dict.
Oracle: xy_to_latlon o latlon_to_xy = id both ways (1e-6 m / 1e-9 deg); origin -> (0,0); x east, y north;
local distance within 0.1 % of the haversine distance and local bearing within 0.1 deg of the initial
great-circle bearing (vf/oracles/geo.py)."""

import itertools
import math

import numpy as np

from vf import bigcases
from vf import core
from vf.oracles import geo

PROPERTY = "C17"
LEVEL = "exploration"
MANIFEST = {
    "technique": "bounded-exhaustive enumeration of the reference-point x distance x azimuth lattice through both conversion functions and the configuration parser; haversine / initial-bearing oracle",
    "text": "Every lattice point (49 reference points covering both hemispheres, the date line and the equator, 4 distances up to 5 km, 24 azimuths) is converted forth and back through latlon_to_xy and xy_to_latlon in both orders, as scalars and as arrays, and through parse_config_dict's tower coordinates; orientation, round trip and agreement with great-circle distance and bearing are checked for each.",
    "note": "Spherical earth (R = 6 371 000 m) as the library documents. Tolerances are the property's own (0.1 %, 0.1 deg); round-trip tolerances 1e-6 m and 1e-9 deg.",
}

LATS = (-60.0, -45.0, -10.5, 0.0, 10.0, 47.3, 60.0)
LONS = (-180.0, -179.99, -90.0, 0.0, 11.5, 179.99, 180.0)


def case_ref(case):
    from bldfm.config_parser import latlon_to_xy, parse_config_dict
    from bldfm.plotting._geo import xy_to_latlon

    rlat, rlon = case["ref"]
    v = []
    n = 0
    worst = {"roundtrip_m": 0.0, "dist_rel": 0.0, "bearing_deg": 0.0}

    def bad(sub, msg):
        v.append({"sub": sub, "sig": sub, "msg": "%s; reference (%g, %g)" % (msg, rlat, rlon)})

    x0, y0 = latlon_to_xy(rlat, rlon, rlat, rlon)
    if abs(x0) > 1e-9 or abs(y0) > 1e-9:
        bad("origin", "the reference origin maps to (%g, %g)" % (x0, y0))
    la0, lo0 = xy_to_latlon(0.0, 0.0, rlat, rlon)
    if abs(float(la0) - rlat) > 1e-12 or abs(float(lo0) - rlon) > 1e-12:
        bad("origin", "(0,0) maps to (%r, %r)" % (la0, lo0))
    pts = []
    for dist, k in itertools.product(case["dists"], range(case["naz"])):
        az = 360.0 * k / case["naz"]
        x, y = dist * math.sin(math.radians(az)), dist * math.cos(math.radians(az))
        pts.append((dist, az, x, y))
        n += 1
        lat, lon = xy_to_latlon(x, y, rlat, rlon)
        lat, lon = float(lat), float(lon)
        x2, y2 = latlon_to_xy(lat, lon, rlat, rlon)
        e = max(abs(x2 - x), abs(y2 - y))
        worst["roundtrip_m"] = max(worst["roundtrip_m"], e)
        # the same position with its longitude written the other ways a longitude is written: in [-180, 180) as a GPS reports it,
        # in [0, 360), and the reference written those ways - across the Greenwich meridian and the antimeridian nothing may jump
        for lw, rw, how in (((lon + 180.0) % 360.0 - 180.0, rlon, "point in [-180,180)"), (lon % 360.0, rlon, "point in [0,360)"), (lon, (rlon + 180.0) % 360.0 - 180.0, "reference in [-180,180)"),
                            ((lon + 180.0) % 360.0 - 180.0, rlon % 360.0, "point in [-180,180), reference in [0,360)")):
            if (lw, rw) == (lon, rlon):
                continue
            x3, y3 = latlon_to_xy(lat, lw, rlat, rw)
            n += 1
            if max(abs(x3 - x), abs(y3 - y)) > 1e-5:  # 1e-5 m: reducing a longitude modulo 360 costs ~1e-14 deg
                bad("longitude-representation", "offset (%.3f, %.3f) m: latlon_to_xy(%.9f, %.9f | ref lon %.9f) [%s] gives (%.6f, %.6f) m" % (x, y, lat, lw, rw, how, x3, y3))
                break
        if e > 1e-6:
            bad("roundtrip-xy", "(%.3f, %.3f) m -> (%.9f, %.9f) deg -> (%.6f, %.6f) m" % (x, y, lat, lon, x2, y2))
        la3, lo3 = xy_to_latlon(x2, y2, rlat, rlon)
        if abs(float(la3) - lat) > 1e-9 or abs(float(lo3) - lon) > 1e-9:
            bad("roundtrip-latlon", "(%.9f, %.9f) deg -> m -> (%.9f, %.9f) deg" % (lat, lon, float(la3), float(lo3)))
        # orientation: east <-> longitude grows, north <-> latitude grows
        if (x > 1e-6 and not lon > rlon) or (x < -1e-6 and not lon < rlon) or (y > 1e-6 and not lat > rlat) or (y < -1e-6 and not lat < rlat):
            bad("orientation", "offset (%.2f E, %.2f N) m maps to lat %+.3e, lon %+.3e relative to the origin" % (x, y, lat - rlat, lon - rlon))
        d = geo.haversine(rlat, rlon, lat, lon)
        b = geo.initial_bearing(rlat, rlon, lat, lon)
        dl = math.hypot(x2, y2)
        bl = math.degrees(math.atan2(x2, y2)) % 360
        ed = abs(dl - d) / d
        eb = abs((bl - b + 180) % 360 - 180)
        worst["dist_rel"] = max(worst["dist_rel"], ed)
        worst["bearing_deg"] = max(worst["bearing_deg"], eb)
        if ed > 1e-3:
            bad("distance", "point %.1f m at azimuth %.1f: local distance %.4f m, great-circle %.4f m (%.3f %%)" % (dist, az, dl, d, 100 * ed))
        if eb > 0.1:
            bad("bearing", "point %.1f m at azimuth %.1f: local bearing %.3f deg, great-circle initial bearing %.3f deg" % (dist, az, bl, b))
    # array call == scalar calls
    xs, ys = np.array([p[2] for p in pts]), np.array([p[3] for p in pts])
    la, lo = xy_to_latlon(xs, ys, rlat, rlon)
    for i, (dist, az, x, y) in enumerate(pts):
        l1, l2 = xy_to_latlon(x, y, rlat, rlon)
        if float(l1) != float(la[i]) or float(l2) != float(lo[i]):
            bad("array-call", "array call differs from the scalar call for point %d" % i)
            break
    # integer-typed offsets (Python int, numpy integer scalars and arrays) must give what the float offsets give
    for xi, yi in ((0, 0), (1000, -2000), (-37, 5000), (4999, 1)):
        want = xy_to_latlon(float(xi), float(yi), rlat, rlon)
        for tname, conv in (("int", int), ("np.int64", np.int64), ("np.int32", np.int32)):
            n += 1
            got = xy_to_latlon(conv(xi), conv(yi), rlat, rlon)
            if float(got[0]) != float(want[0]) or float(got[1]) != float(want[1]):
                bad("integer-offsets", "xy_to_latlon(%s(%d), %s(%d)) = (%.9f, %.9f), with float offsets (%.9f, %.9f)" % (tname, xi, tname, yi, float(got[0]), float(got[1]), float(want[0]), float(want[1])))
    xi = np.arange(-5000, 5001, 2500)
    got = xy_to_latlon(xi, xi[::-1].copy(), rlat, rlon)
    want = xy_to_latlon(xi.astype(float), xi[::-1].astype(float), rlat, rlon)
    n += 1
    if not (np.array_equal(np.asarray(got[0], dtype=float), want[0]) and np.array_equal(np.asarray(got[1], dtype=float), want[1])):
        bad("integer-offsets", "xy_to_latlon on integer arrays differs from the float arrays: %r vs %r" % (np.asarray(got[0])[:2], np.asarray(want[0])[:2]))
    # 2-D coordinate arrays that are NOT an xy-meshgrid: an ij-meshgrid and a batch of scattered points
    gx, gy = np.meshgrid(np.arange(-1500.0, 1501.0, 1000.0), np.arange(-900.0, 901.0, 600.0), indexing="ij")
    sc = np.array([[120.0, -340.0, 2210.0], [-4100.0, 15.0, 0.0]])
    g3x, g3y = np.meshgrid(np.arange(-1500.0, 1501.0, 1000.0), np.arange(-900.0, 901.0, 600.0))
    g3x, g3y = np.stack([g3x, g3x + 37.0]), np.stack([g3y, g3y - 11.0])  # (2, ny, nx) stacks
    # ... and the same kinds of arrays in other memory layouts: transposed VIEWS of (nx, ny) rasters, Fortran order, an axis moved
    for name, ax, ay in (("ij-meshgrid", gx, gy), ("scattered 2-D batch", sc, sc[::-1, ::-1].copy()), ("xy-meshgrid", gx.T.copy(), gy.T.copy()),
                         ("transposed views", gx.T, gy.T), ("Fortran-ordered arrays", np.asfortranarray(gx), np.asfortranarray(gy)), ("Fortran x, C y", np.asfortranarray(gx), gy),
                         ("3-D stack with the level axis moved last", np.moveaxis(g3x, 0, -1), np.moveaxis(g3y, 0, -1)), ("reversed strided views", gx[::-1, ::2], gy[::-1, ::2])):
        la2, lo2 = xy_to_latlon(ax, ay, rlat, rlon)
        n += 1
        la2, lo2 = np.asarray(la2), np.asarray(lo2)
        ok = la2.shape == ax.shape and lo2.shape == ax.shape
        if ok:
            for idx in np.ndindex(ax.shape):
                l1, l2 = xy_to_latlon(float(ax[idx]), float(ay[idx]), rlat, rlon)
                if float(l1) != float(la2[idx]) or float(l2) != float(lo2[idx]):
                    ok = False
                    break
        if not ok:
            bad("array-call-2d", "xy_to_latlon on a %s differs from the scalar calls point by point" % name)
    # towers through the configuration parser
    tw = [{"name": "t%d" % i, "lat": float(la[i]), "lon": float(lo[i]), "z_m": 5.0} for i in range(0, len(pts), 7)]
    cfg = parse_config_dict({"domain": {"nx": 4, "ny": 4, "xmax": 40.0, "ymax": 40.0, "nz": 2, "ref_lat": rlat, "ref_lon": rlon}, "towers": tw, "met": {"ustar": 0.3}})
    for t, i in zip(cfg.towers, range(0, len(pts), 7)):
        n += 1
        if abs(t.x - pts[i][2]) > 1e-6 or abs(t.y - pts[i][3]) > 1e-6:
            bad("config-towers", "tower %s: local coordinates (%.6f, %.6f), expected (%.6f, %.6f)" % (t.name, t.x, t.y, pts[i][2], pts[i][3]))
    return {"v": v[:6], "nt": n, "n": n, "obs": worst}


ROUTES = ("parse-dict", "dataclasses", "dataclasses-xy-written-out", "replace-origin", "replace-tower-height", "after-rejected-replace", "after-rejected-parse", "after-rejected-construction")


def case_routes(case):
    """every way a caller arrives at a configuration whose towers are located by latitude / longitude relative to a
    reference origin - including sessions in which another construction was REJECTED in between - leaves every tower
    (the configuration's and the caller's own handle) at the local coordinates of its lat/lon: the round trip through
    xy_to_latlon returns the tower's own lat/lon, and x, y equal the harness' equirectangular placement."""
    import dataclasses

    from bldfm.config_parser import BLDFMConfig, DomainConfig, MetConfig, TowerConfig, parse_config_dict
    from bldfm.plotting._geo import xy_to_latlon

    rlat, rlon = case["ref"]
    route = case["route"]
    # the fourth and fifth towers stand AT THE POSITION of the first and the third (a profile mast listed once per height)
    offs = [(120.0, -340.0), (-55.0, 410.0), (0.0, 0.0), (120.0, -340.0), (0.0, 0.0)]
    ll = [geo.place(rlat, rlon, x, y) for x, y in offs]
    dom = dict(nx=4, ny=4, xmax=40.0, ymax=40.0, nz=2)
    good_met = dict(ustar=[0.3, 0.4], mol=[-50.0, -60.0])
    bad_met = dict(ustar=[0.3, 0.4], mol=[-50.0, -60.0, -70.0])

    def towers_direct(xy=False):
        return [TowerConfig(name="t%d" % i, lat=la, lon=lo, z_m=5.0 + i, **({"x": 0.0, "y": 0.0} if xy else {})) for i, (la, lo) in enumerate(ll)]

    v = []
    handles = None
    ref_now = (rlat, rlon)
    if route == "parse-dict":
        cfg = parse_config_dict({"domain": dict(dom, ref_lat=rlat, ref_lon=rlon), "towers": [{"name": "t%d" % i, "lat": la, "lon": lo, "z_m": 5.0 + i} for i, (la, lo) in enumerate(ll)], "met": good_met})
    else:
        handles = towers_direct(xy=(route == "dataclasses-xy-written-out"))
        cfg = BLDFMConfig(domain=DomainConfig(ref_lat=rlat, ref_lon=rlon, **dom), towers=handles, met=MetConfig(**good_met))
    if route == "replace-origin":
        # the same towers under a second origin 300 m further east / 200 m further south: all local coordinates shift
        ref_now = geo.place(rlat, rlon, 300.0, -200.0)
        cfg = dataclasses.replace(cfg, domain=dataclasses.replace(cfg.domain, ref_lat=ref_now[0], ref_lon=ref_now[1]))
        handles = None  # shared objects now belong to the newer configuration
    elif route == "replace-tower-height":
        ref_now = geo.place(rlat, rlon, 300.0, -200.0)
        tw = [dataclasses.replace(t, z_m=t.z_m + 1.0) for t in cfg.towers]
        cfg = BLDFMConfig(domain=dataclasses.replace(cfg.domain, ref_lat=ref_now[0], ref_lon=ref_now[1]), towers=tw, met=MetConfig(**good_met))
        handles = tw
    elif route.startswith("after-rejected"):
        try:
            if route == "after-rejected-replace":
                dataclasses.replace(cfg, met=MetConfig(**bad_met))
            elif route == "after-rejected-parse":
                parse_config_dict({"domain": dict(dom, ref_lat=rlat + 1.0, ref_lon=rlon), "towers": [{"name": "zz", "lat": rlat, "lon": rlon, "z_m": 2.0}], "met": bad_met})
            else:
                BLDFMConfig(domain=DomainConfig(ref_lat=rlat, ref_lon=rlon, **dom), towers=cfg.towers, met=MetConfig(**bad_met))
            rejected = False
        except Exception:
            rejected = True
        if not rejected:
            raise core.HarnessError("the malformed forcing was accepted - C16's business, but this case needs a rejection")
    n = 0
    for which, tl in (("configuration", cfg.towers), ("caller's own tower objects", handles)):
        if tl is None:
            continue
        for i, t in enumerate(tl):
            n += 1
            ex, ey = offs[i][0] - (300.0 if ref_now != (rlat, rlon) else 0.0), offs[i][1] + (200.0 if ref_now != (rlat, rlon) else 0.0)
            la, lo = xy_to_latlon(t.x, t.y, ref_now[0], ref_now[1])
            if abs(float(la) - t.lat) > 1e-9 or abs(float(lo) - t.lon) > 1e-9 or abs(t.x - ex) > 0.5 or abs(t.y - ey) > 0.5:
                v.append({"sub": "routes", "sig": "routes/%s/%s" % (route, "handle" if handles is tl else "config"),
                          "msg": "route %s, reference (%g, %g): tower %s of the %s sits at local (%.3f, %.3f) m, its lat/lon place it at (%.3f, %.3f) m (round trip gives (%.7f, %.7f) for (%.7f, %.7f))"
                          % (route, ref_now[0], ref_now[1], t.name, which, t.x, t.y, ex, ey, float(la), float(lo), t.lat, t.lon)})
                break
    return {"v": v[:3], "nt": True, "n": n}


HIST_OPS = [
    {"ref": [47.3, 11.5], "pt": [700.0, -300.0]},
    {"ref": [-33.7, 151.25], "pt": [700.0, -300.0]},
    {"ref": [47.3, 11.5], "pt": [-4000.0, 2500.0]},
    {"ref": [0.0, 0.0], "pt": [10.0, 10.0]},
    {"ref": [60.0, -179.99], "arr": True},
    {"ref": [47.3, 11.5], "grid2d": True},
    {"ref": [-33.7, 151.25], "grid2d": True},
    # the SAME tower entries under different reference origins; the live configuration objects are returned and kept
    {"ref": [50.0, 10.0], "fixed_towers": True},
    {"ref": [49.99, 10.02], "fixed_towers": True},
    {"ref": [50.0, 10.0], "fixed_towers": True, "extra": True},
]
FIXED_TOWERS = [{"name": "a", "lat": 50.001, "lon": 10.002, "z_m": 5.0}, {"name": "b", "lat": 50.0, "lon": 10.0, "z_m": 7.0}]


def hist_op(i):
    from bldfm.config_parser import latlon_to_xy, parse_config_dict
    from bldfm.plotting._geo import xy_to_latlon

    op = HIST_OPS[i]
    rlat, rlon = op["ref"]
    if op.get("fixed_towers"):
        import copy

        tw = copy.deepcopy(FIXED_TOWERS) + ([{"name": "c", "lat": 50.002, "lon": 9.999, "z_m": 3.0}] if op.get("extra") else [])
        cfg = parse_config_dict({"domain": {"nx": 4, "ny": 4, "xmax": 40.0, "ymax": 40.0, "nz": 2, "ref_lat": rlat, "ref_lon": rlon}, "towers": tw, "met": {"ustar": 0.3}})
        return cfg.towers  # live objects: a later parse must not move them
    if op.get("grid2d"):
        gx, gy = np.meshgrid(np.arange(-1500.0, 1501.0, 1000.0), np.arange(-900.0, 901.0, 600.0))
        la, lo = xy_to_latlon(gx, gy, rlat, rlon)
        return (la, lo)  # the arrays themselves: a later call must not overwrite them
    if op.get("arr"):
        la, lo = xy_to_latlon(np.arange(-2000.0, 2001.0, 1000.0), np.arange(2000.0, -2001.0, -1000.0), rlat, rlon)
        return (np.asarray(la), np.asarray(lo))
    x, y = op["pt"]
    la, lo = xy_to_latlon(x, y, rlat, rlon)
    back = latlon_to_xy(float(la), float(lo), rlat, rlon)
    cfg = parse_config_dict({"domain": {"nx": 4, "ny": 4, "xmax": 40.0, "ymax": 40.0, "nz": 2, "ref_lat": rlat, "ref_lon": rlon}, "towers": [{"name": "t", "lat": float(la), "lon": float(lo), "z_m": 3.0}], "met": {"ustar": 0.3}})
    return (float(la), float(lo), back, (cfg.towers[0].x, cfg.towers[0].y))


def run(ctx):
    dists = (10.0, 50.0, 500.0, 5000.0) if ctx.tier == "quick" else (1.0, 10.0, 50.0, 500.0, 2000.0, 5000.0)
    naz = 24 if ctx.tier == "quick" else 72
    cases = [{"ref": [la, lo], "dists": list(dists), "naz": naz} for la, lo in itertools.product(LATS, LONS)]
    ctx.rule = "complete product of 7 reference latitudes x 7 longitudes x %d distances x %d azimuths (+ every 7th point as a configured tower); every point is a distinct non-trivial case" % (len(dists), naz)
    res = ctx.run_cases(case_ref, cases, sub="geolocation")
    for k in ("roundtrip_m", "dist_rel", "bearing_deg"):
        ctx.cov["worst_" + k] = max(r.get("obs", {}).get(k, 0) for r in res)
    refs = [(47.3, 11.5), (-33.7, 151.25), (0.0, 0.0), (60.0, 179.99)] if ctx.tier == "quick" else list(itertools.product(LATS, LONS))
    ctx.run_cases(case_routes, [{"ref": list(r), "route": rt} for r in refs for rt in ROUTES], sub="construction routes and sessions with a rejected construction")
    from vf import histories

    histories.run(ctx, __name__, 2 if ctx.tier == "quick" else 3)
    bigcases.run(ctx, "C17")
