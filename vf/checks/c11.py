"""C11 - output keeps the input grid for every size parity, halo and mode count.

Alphabet: nx, ny in 3..8 (thorough 3..10) x even mode counts 2..12 (thorough ..16) per
axis x halo {0, None, 13.0} x {footprint, dispersion}: the complete product.
A call either raises, or must return fields
  * of exactly the source's shape, on x = i*dx, y = j*dy;
  * registered: with halo=0 every Fourier component strictly inside the cut-off equals that of
    the all-modes solve and every component strictly beyond it vanishes (components AT the
    cut-off are unconstrained); with halo != 0 the result equals the crop of the halo=0 call on
    the explicitly zero-padded source (which in turn must satisfy the low-pass identity);
  * modes >= padded size on both axes == modes equal to the padded size (when both accepted)."""

import itertools
import os

import numpy as np

from vf import bigcases
from vf import core
from vf import callforms
from vf import solverlib as sl

PROPERTY = "C11"
LEVEL = "exploration"
MANIFEST = {
    "technique": "bounded-exhaustive enumeration of the complete (nx, ny, modes_x, modes_y, halo, mode) product; per-wavenumber low-pass oracle and explicit-padding differential oracle",
    "text": "Every combination of grid sizes 3..8 (odd and even), even mode counts 2..12 per axis (below, at and above the padded size), three halos (zero, default, incommensurate) and both modes is executed; each call must either raise or return a field of the source's shape whose every Fourier component is registered (equal to the all-modes solution inside the cut-off, zero beyond it). Parity slips produce off-by-one shapes or half-cell misregistration, which this oracle sees for every combination, not just the even power-of-two grids the tests use.",
    "note": "Any exception counts as 'raises' (the property allows rejection); the number of combinations that returned is reported and must be positive. Components exactly at the cut-off are unconstrained; a request above the padded size on one axis only is a request for more modes than the grid holds and must equal the all-modes solve (the library's documented 'Setting both equal').",
}


def cases(tier):
    hi = 8 if tier == "quick" else 10
    mhi = 12 if tier == "quick" else 16
    for nx, ny in itertools.product(range(3, hi + 1), repeat=2):
        for halo in (0.0, None, 13.0):
            for fp in (True, False):
                yield {"nx": nx, "ny": ny, "halo": halo, "footprint": fp, "mhi": mhi}
    # fixed extents divided by every size: cell sizes like 150/7 or 100/3 are not representable, so n*(L/n) != L in floating
    # point and any coordinate / size arithmetic that relies on it is off by one somewhere in this sweep
    for nx, ny in itertools.product(range(3, hi + 1), repeat=2):
        for k, dom in enumerate(((150.0, 75.0), (100.0, 60.0))):
            yield {"nx": nx, "ny": ny, "halo": (0.0, None, 13.0)[(nx + ny + k) % 3], "footprint": bool((nx + k) % 2), "mhi": 8, "dom": list(dom)}


def fine_cases(tier):
    """cells much finer than the column is deep (0.5 m x 0.75 m cells under a 10 m column: the shortest retained wave decays
    by exp(-60) over the column).  Only the analytic mode can be asked there (the shooting combination has no digits left
    for such waves); it is exact, so every retained component is still present at the low output levels."""
    sizes = (4, 5, 8) if tier == "quick" else (3, 4, 5, 6, 7, 8)
    for nx, ny, halo, fp in itertools.product(sizes, sizes, (0.0, 2.0), (True, False)):
        yield {"nx": nx, "ny": ny, "halo": halo, "footprint": fp, "mhi": 8 if tier == "quick" else 12, "cell": [0.5, 0.75], "analytic": True}


def _lowpass_check(out, full, nlx, nly, tol):
    """returns (err_inside, err_beyond) for arrays [..., ny, nx]"""
    ny, nx = out.shape[-2:]
    fo = np.fft.fft2(out, axes=(-2, -1))
    ff = np.fft.fft2(full, axes=(-2, -1))
    ix = np.abs(np.fft.fftfreq(nx, d=1.0 / nx))[None, :]
    iy = np.abs(np.fft.fftfreq(ny, d=1.0 / ny))[:, None]
    inside = (ix < nlx / 2 - 1e-9) & (iy < nly / 2 - 1e-9)
    beyond = (ix > nlx / 2 + 1e-9) | (iy > nly / 2 + 1e-9)
    scale = max(np.abs(ff).max(), 1e-300)
    ein = np.abs(fo - ff)[..., inside].max() / scale if inside.any() else 0.0
    ebe = np.abs(fo)[..., beyond].max() / scale if beyond.any() else 0.0
    return float(ein), float(ebe), int(inside.sum())


def case_grid(case):
    S0 = sl.solver()
    seed = int(os.environ.get("VERIF_SEED", "0") or 0)
    nx, ny, halo, fp = case["nx"], case["ny"], case["halo"], case["footprint"]
    dx, dy = case.get("cell", (10.0, 15.0))
    dom = (nx * dx, ny * dy)
    an = bool(case.get("analytic"))
    if "dom" in case:
        dom = tuple(case["dom"])
        dx, dy = dom[0] / nx, dom[1] / ny
    nxe, nye, px, py = sl.padded_size(nx, ny, dom, halo)
    sl.pollute(nxe, nye, dx, dy)
    z, prof = sl.build_profiles("const" if an else "most_aniso", 3)
    levels = [0, 3] if not an else [0, 1]
    rng = core.case_rng(seed, [nx, ny])
    q = rng.random((ny, nx))
    # tower: interior cell, or on the western / southern domain edge (exactly one coordinate zero), or the corner
    ti, tj = [(1, 2), (0, 2), (1, 0), (0, 0)][(nx + 2 * ny) % 4]
    mp = (ti * dx, tj * dy) if fp else (0.0, 0.0)
    tol = 1e-9
    cnt = [0]

    def S(q_, dom_, modes, halo_, mp_):
        cnt[0] += 1
        try:
            g, c, f = S0(q_, z, prof, dom_, levels, modes=modes, halo=halo_, precision="double", footprint=fp, meas_pt=mp_, analytic=an)
            return g, np.stack([np.asarray(c, dtype=float), np.asarray(f, dtype=float)]) if np.shape(c) == np.shape(f) else (np.asarray(c), np.asarray(f))
        except Exception as e:  # the property allows a call to raise
            return None, "%s" % type(e).__name__

    v = []
    returned = 0
    raised = {}
    # reference: all modes (clamped), on the padded periodic domain, halo=0
    qp = np.pad(q, ((py, py), (px, px)))
    dome = (nxe * dx, nye * dy)
    mpp = (mp[0] + px * dx, mp[1] + py * dy) if fp else mp
    gfull, full = S(qp, dome, (256, 256), 0.0, mpp)
    if gfull is None or not isinstance(full, np.ndarray) or full.shape[-2:] != (nye, nxe):
        v.append({"sub": "reference", "sig": "all-modes/shape", "msg": "all-modes call on the %dx%d periodic domain: %s" % (nxe, nye, full if gfull is None else "shape %s" % (np.shape(full[0]),))})
        return {"v": v, "nt": True, "n": cnt[0]}
    # independent registration anchor for the reference itself: with every mode kept, the flux at the lowest node IS the
    # (padded) source in dispersion mode, and the unit impulse at the tower cell in footprint mode
    anchor = qp if not fp else sl.impulse(nye, nxe, py + tj, px + ti)
    ea = float(np.abs(full[1, 0] - anchor).max() / max(np.abs(anchor).max(), 1e-300))
    if not ea <= 1e-9:
        v.append({"sub": "anchor", "sig": "anchor/%s" % ("footprint" if fp else "dispersion"),
                  "msg": "nx=%d ny=%d halo=%r %s, all modes kept (padded %dx%d): the flux at the lowest node differs from %s by %.2e of its maximum - the field is not registered on the grid"
                  % (nx, ny, halo, "footprint" if fp else "dispersion", nxe, nye, "the unit impulse at the tower cell" if fp else "the source itself", ea)})
    ntested = 0
    q_other = np.full((ny + 2, nx + 2), 0.5)  # same parities as the judged grid, so the same mode counts are accepted
    for nlx, nly in itertools.product(range(2, case["mhi"] + 1, 2), repeat=2):
        if (nlx + nly) % 8 == 0:
            # immediately before: the same request (domain, modes, halo, tower) on ANOTHER grid size - whatever the library
            # might remember about it must not leak into the call that is judged
            S(q_other, dom, (nlx, nly), halo, mp)
        g, out = S(q, dom, (nlx, nly), halo, mp)
        lab = "nx=%d ny=%d halo=%r modes=(%d,%d) %s (padded %dx%d)" % (nx, ny, halo, nlx, nly, "footprint" if fp else "dispersion", nxe, nye)
        par = "odd" if ((nxe - min(nlx, nxe)) % 2 or (nye - min(nly, nye)) % 2) else "even"
        if g is None:
            raised[out] = raised.get(out, 0) + 1
            continue
        returned += 1
        sigp = "%s/%s/halo%s" % ("footprint" if fp else "dispersion", par, "0" if halo == 0.0 else "+")
        if not isinstance(out, np.ndarray) or out.shape != (2, 2, ny, nx):
            shp = out.shape if isinstance(out, np.ndarray) else (np.shape(out[0]), np.shape(out[1]))
            v.append({"sub": "shape", "sig": "shape/" + sigp, "msg": "%s: returned shape %s for a %dx%d source" % (lab, shp, ny, nx)})
            continue
        X, Y = np.asarray(g[0]), np.asarray(g[1])
        Xw, Yw = np.meshgrid(np.arange(nx) * (dom[0] / nx), np.arange(ny) * (dom[1] / ny))
        if X.shape[-2:] != (ny, nx) or not (np.allclose(X.reshape(-1, ny, nx)[0], Xw, rtol=1e-13, atol=1e-12) and np.allclose(Y.reshape(-1, ny, nx)[0], Yw, rtol=1e-13, atol=1e-12)):
            v.append({"sub": "coords", "sig": "coords/" + sigp, "msg": "%s: returned coordinates are not x=i*dx, y=j*dy" % lab})
        # a request that exceeds the padded grid in one direction only is a request for more modes than the grid holds:
        # the documented answer ("Setting both equal") is the all-modes solve
        mixed = (nlx > nxe) != (nly > nye)
        ntested += 1
        # the same request on the explicitly padded domain (identical for halo=0)
        if px or py:
            gp, outp = S(qp, dome, (nlx, nly), 0.0, mpp)
            if gp is None or not isinstance(outp, np.ndarray) or outp.shape[-2:] != (nye, nxe):
                v.append({"sub": "halo-padding", "sig": "halo-padding/" + sigp, "msg": "%s: accepted, but the same request on the explicitly padded source (halo=0) %s" % (lab, "raised " + outp if gp is None else "returned a wrong shape")})
                continue
            e = sl.relerr(out, outp[..., py:nye - py, px:nxe - px], max(np.abs(full).max(), 1e-300))
            if not e <= tol:
                v.append({"sub": "halo-padding", "sig": "halo-padding/" + sigp, "msg": "%s: differs from the crop of the explicitly padded halo=0 solve by %.2e" % (lab, e)})
        else:
            outp = out
        if mixed:
            nlx, nly = nxe + 2, nye + 2
        ein, ebe, nin = _lowpass_check(outp, full, min(nlx, nxe), min(nly, nye), tol)
        if not (ein <= tol and ebe <= tol):
            v.append({"sub": "lowpass", "sig": "lowpass/" + sigp,
                      "msg": "%s: components inside the cut-off differ from the all-modes solve by %.2e, components beyond it have magnitude %.2e (relative to the largest component)" % (lab, ein, ebe)})
        if nlx >= nxe and nly >= nye:
            e = sl.relerr(outp, full, max(np.abs(full).max(), 1e-300))
            if not e <= tol:
                v.append({"sub": "clamp", "sig": "clamp/" + sigp, "msg": "%s: modes >= padded size differs from the all-modes solve by %.2e" % (lab, e)})
    if not fp:
        # dispersion mode with a NON-ZERO measurement point (the output is re-centred on it): the fields move, the grid they
        # are reported on does not - still x = i*dx, y = j*dy, still the source's shape, still the crop of the padded solve
        for mp2 in ((dx, 2 * dy), (0.5 * dom[0] + dx, 0.5 * dom[1] - dy), (0.37 * dom[0], 0.81 * dom[1]), (dom[0] - dx, 0.0)):
            mpp2 = (mp2[0] + px * dx, mp2[1] + py * dy)
            for modes in ((256, 256), (4, 6)):
                g, out = S(q, dom, modes, halo, mp2)
                lab = "nx=%d ny=%d halo=%r modes=%r dispersion, meas_pt=(%.4g, %.4g)" % (nx, ny, halo, modes, mp2[0], mp2[1])
                if g is None:
                    raised[out] = raised.get(out, 0) + 1
                    continue
                returned += 1
                if not isinstance(out, np.ndarray) or out.shape != (2, 2, ny, nx):
                    v.append({"sub": "shape", "sig": "shape/recentred", "msg": "%s: returned a wrong shape for a %dx%d source" % (lab, ny, nx)})
                    continue
                X, Y = np.asarray(g[0]), np.asarray(g[1])
                Xw, Yw = np.meshgrid(np.arange(nx) * (dom[0] / nx), np.arange(ny) * (dom[1] / ny))
                if X.shape[-2:] != (ny, nx) or not (np.allclose(X.reshape(-1, ny, nx)[0], Xw, rtol=1e-13, atol=1e-12) and np.allclose(Y.reshape(-1, ny, nx)[0], Yw, rtol=1e-13, atol=1e-12)):
                    v.append({"sub": "coords", "sig": "coords/recentred", "msg": "%s: returned coordinates are not x=i*dx, y=j*dy (X shape %s, first entries x=%r, y=%r)" % (lab, X.shape, float(X.ravel()[0]) if X.size else None, float(Y.ravel()[0]) if Y.size else None)})
                if px or py:
                    gp, outp = S(qp, dome, modes, 0.0, mpp2)
                    if gp is None or not isinstance(outp, np.ndarray) or outp.shape[-2:] != (nye, nxe):
                        v.append({"sub": "halo-padding", "sig": "halo-padding/recentred", "msg": "%s: accepted, but the same request on the explicitly padded source (halo=0) %s" % (lab, "raised " + str(outp) if gp is None else "returned a wrong shape")})
                        continue
                    e = sl.relerr(out, outp[..., py:nye - py, px:nxe - px], max(np.abs(full).max(), 1e-300))
                    if not e <= tol:
                        v.append({"sub": "halo-padding", "sig": "halo-padding/recentred", "msg": "%s: differs from the crop of the explicitly padded halo=0 solve by %.2e" % (lab, e)})
    return {"v": v[:8], "nt": returned if returned else False, "key": core.canon(case), "n": cnt[0],
            "obs": {"returned": returned, "raised": raised, "lowpass_tested": ntested, "padded": [nxe, nye]}}


def case_closed_anchor(case):
    """an ABSOLUTE anchor for registration on every grid size: with every mode kept (request above the padded size) the
    analytic mode for constant profiles is the closed-form half-space solution on exactly this grid (vf/oracles/halfspace.py),
    at an upper level too - the differential oracles above compare the library with itself and cannot see a spectrum that is
    consistently mis-indexed"""
    from vf.oracles import halfspace

    S0 = sl.solver()
    nx, ny, halo, fp = case["nx"], case["ny"], case["halo"], case["footprint"]
    dx, dy = 10.0, 15.0
    dom = (nx * dx, ny * dy)
    pv = (2.3, -1.1, 1.7, 0.6, 0.9)
    z = np.array([0.05, 0.4, 1.1, 2.3, 3.9, 5.0])
    prof = tuple(np.full(len(z), x) for x in pv)
    lv = [0, 2, 5]
    q = core.case_rng(0, [nx, ny, "closed-anchor"]).random((ny, nx))
    mp = (1 * dx, 2 * dy) if fp else (0.0, 0.0)
    try:
        _, c, f = S0(q, z, prof, dom, lv, modes=(256, 256), halo=halo, precision="double", footprint=fp, meas_pt=mp, analytic=True, srf_bg_conc=1.5)
    except Exception as e:  # noqa - raising is allowed
        return {"v": [], "nt": False, "n": 1, "obs": {"raised": type(e).__name__}}
    nxe, nye, _, _ = sl.padded_size(nx, ny, dom, halo)
    cw, fw = halfspace.solve(q, dom, z[lv] - z[0], pv, (nxe, nye), halo, meas_pt=mp, bg=1.5, footprint=fp)
    v = []
    for nm, a, b in (("conc", c, cw), ("flux", f, fw)):
        a = np.asarray(a, dtype=float)
        e = sl.relerr(a, b, max(np.abs(b).max(), 1.5 if nm == "conc" else 0.0, 1e-300)) if a.shape == b.shape else float("inf")
        if not e <= 1e-10:
            v.append({"sub": "closed-anchor", "sig": "closed-anchor/%s/%s" % ("odd" if (nxe % 2 or nye % 2) else "even", nm),
                      "msg": "nx=%d ny=%d halo=%r %s, every mode kept (padded %dx%d), analytic mode: %s differs from the closed form on this grid by %.2e of its maximum (shape %s)" % (nx, ny, halo, "footprint" if fp else "dispersion", nxe, nye, nm, e, a.shape)})
    return {"v": v, "nt": True, "n": 1}


def case_interface(case):
    """the same obligation through the configuration-driven single run: for every grid size (even or odd) and mode request the
    run either raises or returns fields of the configured shape on x = i*dx, y = j*dy whose flux at the lowest level, with
    every mode kept, is the unit impulse at the tower cell"""
    import warnings

    from bldfm.config_parser import parse_config_dict
    from bldfm.interface import run_bldfm_single

    nx, ny = case["nx"], case["ny"]
    xmax, ymax = 10.0 * nx, 15.0 * ny
    v = []
    n = 0
    returned = 0
    for modes in ([4, 4], [2, 6], [64, 64], [nx + (nx % 2), ny + (ny % 2)]):
        cfg = parse_config_dict({"domain": {"nx": nx, "ny": ny, "xmax": xmax, "ymax": ymax, "nz": 3, "modes": modes, "halo": case["halo"], "output_levels": [0, 3]},
                                 "towers": [{"name": "t", "lat": 0.0, "lon": 0.0, "z_m": 5.0}], "met": {"ustar": 0.4, "mol": -50.0, "wind_speed": 3.0, "wind_dir": 200.0},
                                 "solver": {"footprint": True, "precision": "double"}})
        cfg.towers[0].x, cfg.towers[0].y = 10.0 * 1, 15.0 * 2
        n += 1
        try:
            with warnings.catch_warnings():
                warnings.simplefilter("ignore")
                r = run_bldfm_single(cfg, cfg.towers[0])
        except Exception:
            continue
        returned += 1
        lab = "nx=%d ny=%d halo=%r modes=%r through run_bldfm_single" % (nx, ny, case["halo"], modes)
        f = np.asarray(r["flx"])
        if f.shape != (2, ny, nx):
            v.append({"sub": "interface", "sig": "interface/shape", "msg": "%s: returned shape %s" % (lab, f.shape)})
            continue
        X, Y = np.asarray(r["grid"][0]), np.asarray(r["grid"][1])
        Xw, Yw = np.meshgrid(np.arange(nx) * (xmax / nx), np.arange(ny) * (ymax / ny))
        if X.shape[-2:] != (ny, nx) or not (np.allclose(X.reshape(-1, ny, nx)[0], Xw, rtol=1e-13, atol=1e-12) and np.allclose(Y.reshape(-1, ny, nx)[0], Yw, rtol=1e-13, atol=1e-12)):
            v.append({"sub": "interface", "sig": "interface/coords", "msg": "%s: returned coordinates are not x=i*dx, y=j*dy (X shape %s, x[1]=%r, dx=%r)" % (lab, X.shape, float(X.ravel()[1]) if X.size > 1 else None, xmax / nx)})
        if modes[0] >= 64:
            anchor = sl.impulse(ny, nx, 2, 1)
            ea = float(np.abs(f[0] - anchor).max())
            if not ea <= 1e-9:
                v.append({"sub": "interface", "sig": "interface/anchor", "msg": "%s: with every mode kept the flux at the lowest level differs from the unit impulse at the tower cell by %.2e" % (lab, ea)})
    return {"v": v[:4], "nt": returned if returned else False, "n": n, "obs": {"returned": returned}}


def run(ctx):
    os.environ["VERIF_SEED"] = str(ctx.seed)
    core.warm_numba()
    hi, mhi = (8, 12) if ctx.tier == "quick" else (10, 16)
    ctx.rule = (
        "complete product nx, ny in 3..%d x halo {0, None, 13.0} x {footprint, dispersion} (one case each), inside every case all even mode counts 2..%d per axis; "
        "non-trivial = (case, mode pair) combinations that RETURNED a field (raising is allowed and carries no further obligation); evaluations counts solver calls"
        % (hi, mhi)
    )
    callforms.run_solver_forms(ctx)
    res = ctx.run_cases(case_grid, cases(ctx.tier), sub="grid", chunksize=1)
    res += ctx.run_cases(case_grid, fine_cases(ctx.tier), sub="fine cells under a deep column (analytic mode)", chunksize=1)
    hi_ = 8 if ctx.tier == "quick" else 10
    ctx.run_cases(case_closed_anchor, [{"nx": a_, "ny": b_, "halo": h_, "footprint": f_} for a_ in range(3, hi_ + 1) for b_ in range(3, hi_ + 1) for h_ in (0.0, None, 13.0) for f_ in (True, False)], sub="closed-form anchor on every grid size")
    ctx.run_cases(case_interface, [{"nx": a_, "ny": b_, "halo": h_} for a_ in (4, 5, 7, 8) for b_ in (4, 5, 6) for h_ in (0.0, None, 13.0)], sub="through the configuration-driven run")
    ret = int(sum(r.get("obs", {}).get("returned", 0) for r in res))
    rs = {}
    for r in res:
        for k, n in r.get("obs", {}).get("raised", {}).items():
            rs[k] = rs.get(k, 0) + n
    ctx.cov["combinations_returned"] = ret
    ctx.cov["combinations_raised_by_exception_type"] = rs
    ctx.cov["lowpass_comparisons"] = int(sum(r.get("obs", {}).get("lowpass_tested", 0) for r in res))
    if ret == 0:
        raise core.HarnessError("no combination returned a result - the enumeration is vacuous")
    bigcases.run(ctx, "C11")
