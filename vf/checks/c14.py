"""C14 - timeseries, multi-tower and parallel runs equal the individual single runs,
for every completion order of the workers.

Model: models/PoolMap.tla - a FIFO pool with W slots over N tasks; explored by TLC, whose
dumped state graph yields states, transitions and (history variable `done`) EVERY feasible
completion order; a Python enumeration of the same system must agree on all three.
Conformance / replay: every order is forced on the REAL concurrent.futures.ProcessPoolExecutor
used by run_bldfm_parallel: the task function (run_bldfm_single resp. run_bldfm_timeseries,
module attributes resolved at call time) is wrapped before the pool forks; the wrapper computes
the real result, then waits at a gate in shared memory until the results of all tasks earlier in the
prescribed order have ARRIVED in the parent (the gate counter is advanced by the parent's done callbacks).  A recording subclass of the executor observes the order in which the futures
complete in the parent; it must equal the prescribed order (model trace == implementation trace),
otherwise the run is a harness error, not a pass.
Oracle per trace: for every tower and step conc/flx/grid equal the single run computed first in
the same fresh one-thread process (1e-12 of field maximum), names / coordinates / timestamps /
params equal exactly, dict keys in configuration order, lists in time order.
Alphabet: (towers x steps) shapes, strategies {towers, time, both}, W in 1..5, parent thread
setting {1, 4 (parent has executed a 4-thread solve before the pool forks)}, cache {off, on} with
a repeated met condition in the series; serial drivers for the same shapes."""

import itertools
import os
import time

import numpy as np

from vf import bigcases
from vf import core, driverfail, poolmodel

PROPERTY = "C14"
LEVEL = "model_checking"
MANIFEST = {
    "technique": "explicit-state model checking of a TLA+ worker-pool model with TLC; every terminal trace (completion order) replayed on the real ProcessPoolExecutor through a gate and checked for conformance (observed completion order) and against single-run results",
    "text": "The schedule space of the parallel driver is the set of completion orders of a FIFO pool. TLC explores the pool model exhaustively for every (tasks, workers) pair in the bound; each terminal state is one feasible order and every one of them is forced on the real executor and observed to occur, so the coverage statement is 'no completion order of <= N tasks on <= 5 workers makes any strategy return anything but the single-run results, in key order and time order', for both parent thread settings and with the cache on and off.",
    "note": "Trusted: the gate (shared-memory counter) and the recording executor subclass; the FIFO-dispatch abstraction of ProcessPoolExecutor is validated on every trace by comparing the observed with the prescribed completion order. Scheduling inside one worker (numba/FFTW threads) is not controlled. Python enumerator cross-checks TLC's state/transition/trace counts.",
}

TOWERS = [("north", 50.0003, 10.0004, 5), ("south", 50.0001, 10.0008, 7.5), ("mast3", 50.0004, 10.0002, 6)]


def make_config(nt, ns, use_cache, footprint=True, variant="plain", src_loc=None, levels=None, single_row=False, snap=False, awkward=False):
    from bldfm.config_parser import parse_config_dict

    ust = [0.30, 0.45, 0.30, 0.38]  # step 2 repeats step 0 (cache hit inside one series)
    wdir = [20, 250, 20, 135]  # whole numbers as integers, the way a YAML file delivers them
    stamps = ["2024-07-01T%02d:00" % (10 + i) for i in range(ns)]
    if variant == "steady":
        # consecutive steps with identical conditions (a steady spell): step 1 repeats step 0 in EVERY field but the label
        ust, wdir = [0.30, 0.30, 0.45, 0.45], [20, 20, 250, 250]
    if variant == "dup-labels" and ns >= 2:
        # local-time labels over the end of daylight-saving time: the last label repeats the first, the conditions differ
        stamps[-1] = stamps[0]
    cfg_ = parse_config_dict(
        {
            "domain": dict({"nx": 8, "ny": 6, "xmax": 80.0, "ymax": 60.0, "nz": 4, "modes": [8, 6], "ref_lat": 50.0, "ref_lon": 10.0, "halo": 20.0},
                           **({"output_levels": levels} if levels else {}), **({"ny": 1, "ymax": 10.0, "modes": [64, 64]} if single_row else {}),
                           # a cell size that is not a binary fraction (75 m / 7 cells, 60 m / 13 cells): n * (L / n) != L in floating point
                           **({"nx": 7, "xmax": 75.0, "ny": 13, "ymax": 60.0, "modes": [64, 64]} if awkward else {})),
            "towers": [{"name": n, "lat": la, "lon": lo, "z_m": zm} for n, la, lo, zm in TOWERS[:nt]],
            "met": {"ustar": ust[:ns], "wind_dir": wdir[:ns], "mol": -50, "wind_speed": 3, "timestamps": stamps},
            "solver": dict({"footprint": footprint, "precision": "double"}, **({"src_loc": src_loc} if src_loc else {})),
            "parallel": {"use_cache": use_cache},
        }
    )
    if snap:
        # the user snaps the towers (located by lat/lon) onto grid nodes AFTER the configuration was built
        for t in cfg_.towers:
            t.x, t.y = round(t.x / 10.0) * 10.0, round(t.y / 10.0) * 10.0
    return cfg_


def _same_result(got, want, tol=0.0):  # "exactly the result of the corresponding single run": bit for bit
    """returns None if equal, else a description"""
    for k in ("tower_name", "tower_xy", "timestamp", "params"):
        if got.get(k) != want.get(k):
            return "%s=%r, single run has %r" % (k, got.get(k), want.get(k))
    for k in ("conc", "flx"):
        a, b = np.asarray(got[k]), np.asarray(want[k])
        if a.shape != b.shape:
            return "%s shape %s vs %s" % (k, a.shape, b.shape)
        sc = max(np.abs(b).max(), 1e-300)
        e = np.abs(a - b).max() / sc
        if not e <= tol:
            return "%s differs by %.2e of the field maximum" % (k, e)
    for i, (a, b) in enumerate(zip(got["grid"], want["grid"])):
        if not np.array_equal(np.asarray(a), np.asarray(b)):
            return "grid[%d] differs" % i
    return None


def _caller_overwrites(res):
    # the caller owns what a driver returned: it normalises / converts the arrays in place
    for lst in (res.values() if isinstance(res, dict) else [res]):
        for r in lst:
            for k in ("conc", "flx"):
                a = np.asarray(r[k])
                if a.flags.writeable and a.size:
                    a[...] = -999.0


def _compare(res, ref, cfg, ns, what):
    out = []
    names = [t.name for t in cfg.towers]
    if list(res.keys()) != names:
        out.append("%s: keys %r, configuration order is %r" % (what, list(res.keys()), names))
        return out
    for nm in names:
        if len(res[nm]) != ns:
            out.append("%s: tower %s has %d results for %d steps" % (what, nm, len(res[nm]), ns))
            continue
        for i in range(ns):
            d = _same_result(res[nm][i], ref[nm][i])
            if d:
                out.append("%s: tower %s step %d: %s" % (what, nm, i, d))
    return out


def case_pool(case):
    """one (shape, strategy, W, parent threads, cache) cell; runs ALL completion orders handed in by the model"""
    import multiprocessing as mp
    from concurrent.futures import ProcessPoolExecutor as RealPool

    import bldfm.interface as bi
    from bldfm import config as rt

    nt, ns = case["shape"]
    strat, W = case["strategy"], case["W"]
    opts = dict(levels=case.get("levels"), single_row=case.get("single_row", False), snap=case.get("snap", False), awkward=case.get("awkward", False))
    if case.get("earlier_run_other_source"):
        # an EARLIER run in the same working directory (same domain, towers, met; source somewhere else) has left its
        # files behind (only matters if something is cached on disk)
        cfg0 = make_config(nt, ns, case["cache"], case.get("footprint", True), case.get("variant", "plain"), src_loc=[20.0, 15.0], **opts)
        bi.run_bldfm_multitower(cfg0)
        bi.run_bldfm_parallel(cfg0, max_workers=2, parallel_over="towers")
    cfg = make_config(nt, ns, case["cache"], case.get("footprint", True), case.get("variant", "plain"), src_loc=[55.0, 40.0] if case.get("earlier_run_other_source") else None, **opts)
    orig_single, orig_ts = bi.run_bldfm_single, bi.run_bldfm_timeseries
    v = []
    # (1) reference single runs: fresh process, one thread, no cache
    ref = {t.name: [orig_single(cfg, t, met_index=i) for i in range(ns)] for t in cfg.towers}
    for lst in ref.values():
        for r_ in lst:
            r_["conc"], r_["flx"] = np.array(r_["conc"], copy=True), np.array(r_["flx"], copy=True)
    nexec = nt * ns
    # (2) parent thread state
    if case["parent_threads"] > 1:
        rt.NUM_THREADS = case["parent_threads"]
        r = orig_single(cfg, cfg.towers[0], met_index=0)
        nexec += 1
        d = _same_result(r, ref[cfg.towers[0].name][0], tol=1e-12)  # across thread settings: equal to rounding (C12)
        if d:
            v.append({"sub": "parent-threads", "sig": "parent-threads", "msg": "single run with %d threads vs 1 thread: %s; case %s" % (case["parent_threads"], d, core.canon(case))})
    # (3) serial drivers
    if case.get("serial", True):
        r = {t.name: bi.run_bldfm_timeseries(cfg, t) for t in cfg.towers}
        for m in _compare(r, ref, cfg, ns, "run_bldfm_timeseries"):
            v.append({"sub": "serial", "sig": "serial/timeseries", "msg": m + "; case " + core.canon(case)})
        _caller_overwrites(r)
        r = bi.run_bldfm_multitower(cfg)
        nexec += 2 * nt * ns
        for m in _compare(r, ref, cfg, ns, "run_bldfm_multitower"):
            v.append({"sub": "serial", "sig": "serial/multitower", "msg": m + "; case " + core.canon(case)})
    # (4) gate + recording executor
    npools = nt if strat == "time" else 1
    ntasks = {"towers": nt, "time": ns, "both": nt * ns}[strat]
    ctr = mp.Array("i", npools)
    gate_err = mp.Value("i", 0)
    started = mp.Array("i", npools * max(ntasks, 1))
    state = {"orders": None}
    tnames = [t.name for t in cfg.towers]

    def wait_turn(pool_idx, tid):
        started[pool_idx * ntasks + tid] = 1
        if state["orders"] is None:
            return  # conformance probe: no prescribed order
        pos = state["orders"][pool_idx].index(tid)
        t0 = time.time()
        while ctr[pool_idx] != pos:
            if time.time() - t0 > 20:
                gate_err.value = 1
                raise RuntimeError("gate timeout")
            time.sleep(0.0005)
        # the counter is advanced by the PARENT when the future of the previous task completes there (done
        # callback of the recording executor), so passing the gate happens-after the arrival of every earlier
        # result in the parent: the forced completion order does not depend on timing

    def gated_single(config, tower, met_index=0, **kw):
        r = orig_single(config, tower, met_index=met_index, **kw)
        if strat == "both":
            wait_turn(0, tnames.index(tower.name) * ns + met_index)
        elif strat == "time":
            wait_turn(tnames.index(tower.name), met_index)
        return r

    def gated_ts(config, tower, **kw):
        r = orig_ts(config, tower, **kw)
        if strat == "towers":
            wait_turn(0, tnames.index(tower.name))
        return r

    pools = []

    class RecordingPool(RealPool):
        def __init__(self, *a, **k):
            super().__init__(*a, **k)
            self._vf_done = []
            self._vf_n = 0
            self._vf_workers = k.get("max_workers", a[0] if a else None)
            self._vf_idx = len(pools)
            pools.append(self)

        def _vf_arrived(self, n):
            self._vf_done.append(n)
            if self._vf_idx < npools:
                with ctr.get_lock():
                    ctr[self._vf_idx] += 1

        def submit(self, fn, *a, **k):
            fut = super().submit(fn, *a, **k)
            n = self._vf_n
            self._vf_n += 1
            fut.add_done_callback(lambda f, n=n: self._vf_arrived(n))
            return fut

    bi.run_bldfm_single, bi.run_bldfm_timeseries, bi.ProcessPoolExecutor = gated_single, gated_ts, RecordingPool
    traces = inversions = 0
    not_applicable = None
    schedules = []

    def judge(res, how):
        for m in _compare(res, ref, cfg, ns, "run_bldfm_parallel[%s, W=%d]" % (strat, W)):
            v.append({"sub": "parallel", "sig": "parallel/%s/%s" % (strat, how), "msg": "%s (%s); case %s" % (m, how, core.canon({k: case[k] for k in case if k != "orders"}))})

    try:
        # conformance probe: one free-running call through the recording executor.  The model speaks about `npools` pools with
        # `ntasks` tasks each, every task passing the wrapped seam exactly once; if the implementation's pool structure is
        # different the model does not bind to it - the cell is then judged on free-running calls only and reported as such
        state["orders"] = None
        del pools[:]
        res = bi.run_bldfm_parallel(cfg, max_workers=W, parallel_over=strat)
        nexec += nt * ns
        if len(pools) != npools or any(p._vf_workers != W for p in pools) or any(p._vf_n != ntasks for p in pools) or sum(started) != npools * ntasks:
            not_applicable = "pool structure differs from the model: %d executor(s) with %r submissions and %r workers, %d of %d tasks passed the seam (model: %d executor(s) x %d tasks, %d workers)" % (
                len(pools), [p._vf_n for p in pools], [p._vf_workers for p in pools], sum(started), npools * ntasks, npools, ntasks, W)
            judge(res, "free-running")
            judge(bi.run_bldfm_parallel(cfg, max_workers=W, parallel_over=strat), "free-running")
            nexec += nt * ns
        per_pool = [tuple(o) for o in case["orders"]]  # completion orders (0-based) of ONE pool of ntasks tasks
        schedules = list(itertools.product(per_pool, repeat=npools)) if not_applicable is None else []
        for sched in schedules:
            state["orders"] = [list(o) for o in sched]
            for i in range(npools):
                ctr[i] = 0
            for i in range(len(started)):
                started[i] = 0
            del pools[:]
            try:
                res = bi.run_bldfm_parallel(cfg, max_workers=W, parallel_over=strat)
            except Exception:
                if gate_err.value:
                    res = None
                else:
                    raise
            nexec += nt * ns
            # conformance: the seam was exercised and the implementation followed the model trace
            if gate_err.value or res is None:
                # the implementation did not follow a completion order the model allows (workers that outlive a call, tasks
                # bundled differently ...): the model does not bind to it; judged on free-running calls instead
                not_applicable = "a worker waited 20 s for its turn under the completion order %r the model allows" % (sched,)
                state["orders"] = None
                judge(bi.run_bldfm_parallel(cfg, max_workers=W, parallel_over=strat), "free-running")
                break
            observed = [tuple(p._vf_done) for p in pools]
            if len(pools) != npools or any(p._vf_workers != W for p in pools) or sum(started) != npools * ntasks or observed != [tuple(o) for o in sched]:
                not_applicable = "under the prescribed completion order %r the parent observed %r with %d executor(s); %d of %d tasks passed the seam" % (sched, observed, len(pools), sum(started), npools * ntasks)
                state["orders"] = None
                judge(res, "free-running")
                break
            traces += 1
            if any(list(o) != sorted(o) for o in sched):
                inversions += 1
            cmp_msgs = _compare(res, ref, cfg, ns, "run_bldfm_parallel[%s, W=%d]" % (strat, W))
            _caller_overwrites(res)
            for m in cmp_msgs:
                v.append({"sub": "parallel", "sig": "parallel/%s/%s" % (strat, "inorder" if all(list(o) == sorted(o) for o in sched) else "reordered"),
                          "msg": "%s under completion order %r; case %s" % (m, [list(o) for o in sched], core.canon({k: case[k] for k in case if k != "orders"}))})
    finally:
        bi.run_bldfm_single, bi.run_bldfm_timeseries, bi.ProcessPoolExecutor = orig_single, orig_ts, RealPool
    return {"v": v[:6], "nt": inversions if inversions else (1 if traces else False), "key": core.canon({k: case[k] for k in case if k != "orders"}), "n": nexec,
            "obs": {"traces": traces, "traces_with_inversion": inversions, "tasks_per_pool": ntasks, "pools": npools, "model_not_applicable": not_applicable,
                    "last_schedule_replayed_and_observed": [list(o) for o in schedules[-1]] if schedules else None}}


def case_cache_race(case):
    """what the pool workers of strategy "towers" do (the cached time series of one tower each) for two towers with result
    caching on, as two workers forked from this process, under EVERY interleaving of their cache-file operations with at most two
    preemptions; afterwards the serial drivers - now served from what the workers left in .bldfm_cache - must still return
    the single runs"""
    import bldfm.interface as bi
    from vf import cacherace

    nt, ns = case["shape"]
    ref_cfg = make_config(nt, ns, False, True, case.get("variant", "plain"))
    ref = {t.name: [bi.run_bldfm_single(ref_cfg, t, met_index=i) for i in range(ns)] for t in ref_cfg.towers}
    cfg = make_config(nt, ns, True, True, case.get("variant", "plain"))

    def worker(k):
        def run(cdir):
            # what a pool worker of strategy "towers" does, through the public API: fresh FFT layer, one thread, the tower's series
            from bldfm import config as rt_
            from bldfm.fft_manager import reset_fft_manager

            rt_.NUM_THREADS = 1
            reset_fft_manager()
            name, res = cfg.towers[k].name, bi.run_bldfm_timeseries(cfg, cfg.towers[k])
            return name, [{kk: r[kk] for kk in ("conc", "flx", "grid", "tower_name", "tower_xy", "timestamp", "params")} for r in res]
        return run

    def judge(label, out):
        name, res = out
        if name != label or len(res) != ns:
            return "returned %r with %d results" % (name, len(res))
        for i in range(ns):
            d = _same_result(res[i], ref[label][i])
            if d:
                return "step %d: %s" % (i, d)
        return None

    def after(cdir):
        msgs = []
        res = bi.run_bldfm_multitower(cfg)
        for t in cfg.towers:
            for i in range(ns):
                d = _same_result(res[t.name][i], ref[t.name][i])
                if d:
                    msgs.append("a later cached run: tower %s step %d: %s" % (t.name, i, d))
                    return msgs
        return msgs

    return cacherace.explore([(cfg.towers[k].name, worker(k)) for k in range(nt)], judge, after, bound=case["bound"], sub="cache-race", what="strategy 'towers' with use_cache, %d towers x %d steps" % (nt, ns))


def big_config(nt, ns, stamps, cache=False):
    from bldfm.config_parser import parse_config_dict

    met = {"ustar": [0.25 + 0.013 * i for i in range(ns)], "wind_dir": [(17.0 + 47.0 * i) % 360.0 for i in range(ns)], "mol": [(-40.0, 150.0, -300.0)[i % 3] for i in range(ns)], "wind_speed": [2.5 + 0.1 * (i % 7) for i in range(ns)]}
    if stamps:
        met["timestamps"] = ["2024-07-01T%02d:%02d" % (i // 2, 30 * (i % 2)) for i in range(ns)]
    return parse_config_dict({
        "domain": {"nx": 8, "ny": 6, "xmax": 80.0, "ymax": 60.0, "nz": 3, "modes": [8, 6], "ref_lat": 50.0, "ref_lon": 10.0, "halo": 10.0},
        "towers": [{"name": "mast_%d" % k, "lat": 50.0001 + 0.00008 * k, "lon": 10.0002 + 0.00011 * ((k * 3) % 5), "z_m": 4.0 + 0.5 * (k % 12)} for k in range(nt)],
        "met": met, "solver": {"footprint": True, "precision": "double"}, "parallel": {"use_cache": cache}})


def shape_cases(tier):
    # shapes beyond what the completion-order model enumerates (the pool runs freely here): towers != steps, more tasks than
    # workers with uneven splits, more than 16 (tower, step) pairs, one tower / one step, with and without timestamps
    shapes = [(2, 3), (3, 2), (1, 5), (3, 3), (3, 6)] if tier == "quick" else [(2, 3), (3, 2), (1, 5), (5, 1), (3, 3), (3, 6), (6, 3), (2, 9), (1, 17), (5, 4), (4, 5)]
    for (nt, ns), strat, stamps in itertools.product(shapes, ("towers", "time", "both"), (True, False)):
        for W in ((2, 3, 4) if nt * ns <= 9 else (2, 4)):
            if tier == "quick" and stamps and W == 3:
                continue
            yield {"shape": [nt, ns], "strategy": strat, "W": W, "stamps": stamps}


def case_shapes(case):
    import bldfm.interface as bi

    nt, ns = case["shape"]
    cfg = big_config(nt, ns, case["stamps"])
    with __import__("warnings").catch_warnings():
        __import__("warnings").simplefilter("ignore")
        ref = {t.name: [bi.run_bldfm_single(cfg, t, met_index=i) for i in range(ns)] for t in cfg.towers}
        res = bi.run_bldfm_parallel(cfg, max_workers=case["W"], parallel_over=case["strategy"])
    out = _compare(res, ref, cfg, ns, "run_bldfm_parallel[%s, W=%d], %d towers x %d steps, %s timestamps" % (case["strategy"], case["W"], nt, ns, "with" if case["stamps"] else "without"))
    v = [{"sub": "shapes", "sig": "shapes/%s" % case["strategy"], "msg": "%s; case %s" % (m, core.canon(case))} for m in out[:3]]
    return {"v": v, "nt": True, "n": nt * ns * 2}


def case_sessions(case):
    """one live configuration object through two consecutive parallel runs with an edit in between (grid size, halo, forcing,
    a tower moved): the second run is the single runs of the configuration as it is THEN"""
    import bldfm.interface as bi

    cfg = big_config(2, 3, True)
    v = []
    n = 0
    with __import__("warnings").catch_warnings():
        __import__("warnings").simplefilter("ignore")
        for k, edit in enumerate([None] + list(case["edits"])):
            if edit == "grid":
                cfg.domain.nx, cfg.domain.ny, cfg.domain.modes = 10, 8, (10, 8)
            elif edit == "halo":
                cfg.domain.halo = 25.0
            elif edit == "forcing":
                cfg.met.ustar = [u + 0.1 for u in cfg.met.ustar]
            elif edit == "tower":
                cfg.towers[0].x, cfg.towers[0].y = cfg.towers[0].x + 10.0, cfg.towers[0].y + 10.0
            elif edit == "levels":
                cfg.domain.output_levels = [2, 0]
            ref = {t.name: [bi.run_bldfm_single(cfg, t, met_index=i) for i in range(3)] for t in cfg.towers}
            res = bi.run_bldfm_parallel(cfg, max_workers=case["W"], parallel_over=case["strategy"])
            n += 12
            out = _compare(res, ref, cfg, 3, "parallel run %d of one session (edits so far: %r), strategy %s, W=%d" % (k, ([None] + list(case["edits"]))[1:k + 1], case["strategy"], case["W"]))
            if out:
                v.append({"sub": "sessions", "sig": "sessions/%s" % (edit or "first"), "msg": "%s; case %s" % (out[0], core.canon(case))})
                break
    return {"v": v, "nt": True, "n": n}


def cells(tier):
    shapes = [(1, 1), (1, 2), (2, 1), (2, 2), (1, 3)] if tier == "quick" else [(1, 1), (1, 2), (2, 1), (2, 2), (1, 3), (3, 1), (3, 2), (2, 3)]
    for shape, strat, W, pt, cache in itertools.product(shapes, ("towers", "time", "both"), (1, 2, 3, 4, 5), (1, 4), (False, True)):
        nt, ns = shape
        ntasks = {"towers": nt, "time": ns, "both": nt * ns}[strat]
        npools = nt if strat == "time" else 1
        if tier == "quick" and W == 4 and ntasks < 4:
            continue  # W=3 and W=5 already cover "more workers than tasks" for these
        if ntasks >= 6 and W >= 4 and (pt != 1 or cache):
            continue  # 384-600 orders per cell: replayed once (one thread setting, cache off)
        variant = ("plain", "dup-labels", "steady")[(W + nt + ns + (1 if cache else 0)) % 3]
        k_ = (2 * W + nt + 3 * ns + pt) % 5
        extra = [{}, {"levels": [1, 3]}, {"snap": True}, {"levels": [3, 0, 4], "single_row": True}, {"awkward": True}][k_]
        yield dict({"shape": list(shape), "strategy": strat, "W": W, "parent_threads": pt, "cache": cache, "ntasks": ntasks, "npools": npools, "variant": variant}, **extra)
    # dispersion mode with the cache switched on and an earlier run with another source in the same directory
    for shape, strat, W in itertools.product([(2, 2), (1, 3)] if tier == "quick" else [(2, 2), (1, 3), (2, 3)], ("towers", "time", "both"), (1, 2, 3)):
        nt, ns = shape
        ntasks = {"towers": nt, "time": ns, "both": nt * ns}[strat]
        if ntasks >= 6 and W >= 3:
            continue
        yield {"shape": list(shape), "strategy": strat, "W": W, "parent_threads": 1, "cache": True, "footprint": False, "ntasks": ntasks, "npools": nt if strat == "time" else 1, "earlier_run_other_source": True, "variant": "plain"}
    if tier != "quick":
        for shape, strat, W in itertools.product([(2, 2), (1, 3)], ("towers", "time", "both"), (1, 2, 3)):
            nt, ns = shape
            ntasks = {"towers": nt, "time": ns, "both": nt * ns}[strat]
            yield {"shape": list(shape), "strategy": strat, "W": W, "parent_threads": 1, "cache": False, "footprint": False, "ntasks": ntasks, "npools": nt if strat == "time" else 1}


def run(ctx):
    from concurrent.futures import ThreadPoolExecutor

    core.warm_numba()
    cl = list(cells(ctx.tier))
    combos = sorted({(c["ntasks"], c["W"]) for c in cl})
    t0 = time.time()
    with ThreadPoolExecutor(8) as ex:
        tl = list(ex.map(lambda nw: poolmodel.tlc_model(nw[0], nw[1], ctx.tmp_root), combos))
    model = {}
    states = transitions = 0
    used_tlc = True
    for (N, W), t in zip(combos, tl):
        ps, ptr, pord = poolmodel.python_model(N, W)
        if t is None:
            used_tlc = False
            t = {"states": ps, "transitions": ptr, "orders": pord}
        elif (t["states"], t["transitions"], [tuple(o) for o in t["orders"]]) != (ps, ptr, [tuple(o) for o in pord]):
            raise core.HarnessError("TLC and the Python enumerator disagree on the pool model for N=%d W=%d: %r vs %r" % (N, W, (t["states"], t["transitions"], len(t["orders"])), (ps, ptr, len(pord))))
        model[(N, W)] = t
        states += t["states"]
        transitions += t["transitions"]
    model_wall = round(time.time() - t0, 1)
    for c in cl:
        c["orders"] = [[x - 1 for x in o] for o in model[(c["ntasks"], c["W"])]["orders"]]
    res = core.run_forked(ctx, case_pool, cl, sub="pool-cell", nproc=8)
    core.run_forked(ctx, case_cache_race, [{"shape": [2, 1], "bound": 2}, {"shape": [2, 2], "bound": 1, "variant": "steady"}] + ([{"shape": [2, 2], "bound": 2}, {"shape": [3, 1], "bound": 2}] if ctx.tier != "quick" else []),
                    sub="pool workers sharing the result cache: all interleavings, preemption-bounded", nproc=4, timeout=1800)
    ctx.run_cases(case_shapes, shape_cases(ctx.tier), sub="further shapes / worker counts / unlabelled steps (free-running pool)", chunksize=1)
    from vf import callerenv
    callerenv.run(ctx, case_shapes, [{"shape": [2, 2], "strategy": st_, "W": 2, "stamps": True} for st_ in ("towers", "time", "both")], envs=("non-main-thread", "errstate-raise", "warnings-are-errors", "logging-debug-handler", "cwd-elsewhere"))
    ctx.run_cases(case_sessions, [{"edits": list(e_), "strategy": s_, "W": 2} for e_ in (("grid",), ("halo", "forcing"), ("tower", "levels"), ("forcing", "grid")) for s_ in ("towers", "time", "both")], sub="one configuration object through consecutive parallel runs", chunksize=1)
    ctx.run_cases(driverfail.case_failing_step, driverfail.cases(ctx.tier), sub="series with an unusable step / process state: deliver nothing or deliver it right", chunksize=1)
    traces = int(sum(r.get("obs", {}).get("traces", 0) for r in res))
    na = [(c, r["obs"]["model_not_applicable"]) for c, r in zip(cl, res) if (r.get("obs") or {}).get("model_not_applicable")]
    ctx.cov["cells_where_the_pool_model_did_not_bind"] = len(na)
    if na:
        ctx.assumptions.append("in %d of %d cells the implementation's pool structure differed from models/PoolMap.tla (first: %s); those cells were judged on free-running calls only" % (len(na), len(cl), na[0][1][:200]))
    if na and not ctx.violations:
        raise core.HarnessError("the pool model does not bind to %d of %d cells although no result differs from the single runs - models/PoolMap.tla no longer describes the implementation: %s" % (len(na), len(cl), na[0][1]))
    ctx.cov.update(
        {
            "states": states,
            "transitions": transitions,
            "traces_validated_against_impl": traces,
            "traces_with_inversion": int(sum(r.get("obs", {}).get("traces_with_inversion", 0) for r in res)),
            "model": "models/PoolMap.tla explored by %s; (tasks, workers) pairs: %s" % ("TLC (-dump dot,actionlabels) and cross-checked by vf/poolmodel.python_model" if used_tlc else "the Python enumerator only (TLC not found)", combos),
            "model_orders_per_pair": {"N=%d,W=%d" % k: len(m["orders"]) for k, m in model.items()},
            "model_wall_s": model_wall,
            "conformance": "per cell a free-running probe (executor count, submissions per executor, worker count, every task through the wrapped seam) and per trace: observed completion order in the parent == model trace, all gates passed; a cell whose probe differs is judged on free-running calls and counted in cells_where_the_pool_model_did_not_bind",
        }
    )
    big = [r for r, c in zip(res, cl) if c["ntasks"] >= 4 and c["W"] >= 3][:3]
    ctx.samples[:0] = [{"check": "trace", "case": {k: c[k] for k in c if k != "orders"}, "observed": r.get("obs")} for r, c in zip(res, cl) if r in big]
    ctx.rule = (
        "cells = shapes x strategies x W 1..5 x parent threads {1,4} x cache {off,on}; inside a cell EVERY terminal trace of the pool model for its (tasks, workers) pair "
        "(for strategy 'time' the product over the towers' pools) is replayed; distinct_nontrivial counts replayed schedules containing at least one inversion w.r.t. submission order "
        "(cells whose only schedule is in order count once); evaluations counts single-run executions"
    )
    ctx.assumptions += ["FIFO dispatch of ProcessPoolExecutor (validated per trace by the observed completion order)", "threads inside one worker are not scheduled by the harness"]
    bigcases.run(ctx, "C14")
