"""C14 - timeseries, multi-tower and parallel runs equal the individual single runs,
for every completion order of the workers.

Model: models/PoolMap.tla - a FIFO pool with W slots over N tasks; explored by TLC, whose
dumped state graph yields states, transitions and (history variable `done`) EVERY feasible
completion order; a Python enumeration of the same system must agree on all three.
Conformance / replay: every order is forced on the REAL concurrent.futures.ProcessPoolExecutor
used by run_bldfm_parallel: the task function (run_bldfm_single resp. run_bldfm_timeseries,
module attributes resolved at call time) is wrapped before the pool forks; the wrapper computes
the real result, then waits at a gate in shared memory until the results of all tasks earlier in the
prescribed order have ARRIVED in the parent (the gate counter is advanced by the parent's done callbacks).  A recording subclass of the executor observes the order in which the futures
complete in the parent; it must equal the prescribed order (model trace == implementation trace),
otherwise the run is a harness error, not a pass.
Oracle per trace: for every tower and step conc/flx/grid equal the single run computed first in
the same fresh one-thread process (1e-12 of field maximum), names / coordinates / timestamps /
params equal exactly, dict keys in configuration order, lists in time order.
Alphabet: (towers x steps) shapes, strategies {towers, time, both}, W in 1..5, parent thread
setting {1, 4 (parent has executed a 4-thread solve before the pool forks)}, cache {off, on} with
a repeated met condition in the series; serial drivers for the same shapes."""

import itertools
import os
import time

import numpy as np

from vf import core, driverfail, poolmodel

PROPERTY = "C14"
LEVEL = "model_checking"
MANIFEST = {
    "technique": "explicit-state model checking of a TLA+ worker-pool model with TLC; every terminal trace (completion order) replayed on the real ProcessPoolExecutor through a gate and checked for conformance (observed completion order) and against single-run results",
    "text": "The schedule space of the parallel driver is the set of completion orders of a FIFO pool. TLC explores the pool model exhaustively for every (tasks, workers) pair in the bound; each terminal state is one feasible order and every one of them is forced on the real executor and observed to occur, so the coverage statement is 'no completion order of <= N tasks on <= 5 workers makes any strategy return anything but the single-run results, in key order and time order', for both parent thread settings and with the cache on and off.",
    "note": "Trusted: the gate (shared-memory counter) and the recording executor subclass; the FIFO-dispatch abstraction of ProcessPoolExecutor is validated on every trace by comparing the observed with the prescribed completion order. Scheduling inside one worker (numba/FFTW threads) is not controlled. Python enumerator cross-checks TLC's state/transition/trace counts.",
}

TOWERS = [("north", 50.0003, 10.0004, 5), ("south", 50.0001, 10.0008, 7.5), ("mast3", 50.0004, 10.0002, 6)]


def make_config(nt, ns, use_cache, footprint=True, variant="plain", src_loc=None, levels=None, single_row=False, snap=False, awkward=False):
    from bldfm.config_parser import parse_config_dict

    ust = [0.30, 0.45, 0.30, 0.38]  # step 2 repeats step 0 (cache hit inside one series)
    wdir = [20, 250, 20, 135]  # whole numbers as integers, the way a YAML file delivers them
    stamps = ["2024-07-01T%02d:00" % (10 + i) for i in range(ns)]
    if variant == "steady":
        # consecutive steps with identical conditions (a steady spell): step 1 repeats step 0 in EVERY field but the label
        ust, wdir = [0.30, 0.30, 0.45, 0.45], [20, 20, 250, 250]
    if variant == "dup-labels" and ns >= 2:
        # local-time labels over the end of daylight-saving time: the last label repeats the first, the conditions differ
        stamps[-1] = stamps[0]
    cfg_ = parse_config_dict(
        {
            "domain": dict({"nx": 8, "ny": 6, "xmax": 80.0, "ymax": 60.0, "nz": 4, "modes": [8, 6], "ref_lat": 50.0, "ref_lon": 10.0, "halo": 20.0},
                           **({"output_levels": levels} if levels else {}), **({"ny": 1, "ymax": 10.0, "modes": [64, 64]} if single_row else {}),
                           # a cell size that is not a binary fraction (75 m / 7 cells, 60 m / 13 cells): n * (L / n) != L in floating point
                           **({"nx": 7, "xmax": 75.0, "ny": 13, "ymax": 60.0, "modes": [64, 64]} if awkward else {})),
            "towers": [{"name": n, "lat": la, "lon": lo, "z_m": zm} for n, la, lo, zm in TOWERS[:nt]],
            "met": {"ustar": ust[:ns], "wind_dir": wdir[:ns], "mol": -50, "wind_speed": 3, "timestamps": stamps},
            "solver": dict({"footprint": footprint, "precision": "double"}, **({"src_loc": src_loc} if src_loc else {})),
            "parallel": {"use_cache": use_cache},
        }
    )
    if snap:
        # the user snaps the towers (located by lat/lon) onto grid nodes AFTER the configuration was built
        for t in cfg_.towers:
            t.x, t.y = round(t.x / 10.0) * 10.0, round(t.y / 10.0) * 10.0
    return cfg_


def _same_result(got, want, tol=1e-12):
    """returns None if equal, else a description"""
    for k in ("tower_name", "tower_xy", "timestamp", "params"):
        if got.get(k) != want.get(k):
            return "%s=%r, single run has %r" % (k, got.get(k), want.get(k))
    for k in ("conc", "flx"):
        a, b = np.asarray(got[k]), np.asarray(want[k])
        if a.shape != b.shape:
            return "%s shape %s vs %s" % (k, a.shape, b.shape)
        sc = max(np.abs(b).max(), 1e-300)
        e = np.abs(a - b).max() / sc
        if not e <= tol:
            return "%s differs by %.2e of the field maximum" % (k, e)
    for i, (a, b) in enumerate(zip(got["grid"], want["grid"])):
        if not np.array_equal(np.asarray(a), np.asarray(b)):
            return "grid[%d] differs" % i
    return None


def _caller_overwrites(res):
    # the caller owns what a driver returned: it normalises / converts the arrays in place
    for lst in (res.values() if isinstance(res, dict) else [res]):
        for r in lst:
            for k in ("conc", "flx"):
                a = np.asarray(r[k])
                if a.flags.writeable and a.size:
                    a[...] = -999.0


def _compare(res, ref, cfg, ns, what):
    out = []
    names = [t.name for t in cfg.towers]
    if list(res.keys()) != names:
        out.append("%s: keys %r, configuration order is %r" % (what, list(res.keys()), names))
        return out
    for nm in names:
        if len(res[nm]) != ns:
            out.append("%s: tower %s has %d results for %d steps" % (what, nm, len(res[nm]), ns))
            continue
        for i in range(ns):
            d = _same_result(res[nm][i], ref[nm][i])
            if d:
                out.append("%s: tower %s step %d: %s" % (what, nm, i, d))
    return out


def case_pool(case):
    """one (shape, strategy, W, parent threads, cache) cell; runs ALL completion orders handed in by the model"""
    import multiprocessing as mp
    from concurrent.futures import ProcessPoolExecutor as RealPool

    import bldfm.interface as bi
    from bldfm import config as rt

    nt, ns = case["shape"]
    strat, W = case["strategy"], case["W"]
    opts = dict(levels=case.get("levels"), single_row=case.get("single_row", False), snap=case.get("snap", False), awkward=case.get("awkward", False))
    if case.get("earlier_run_other_source"):
        # an EARLIER run in the same working directory (same domain, towers, met; source somewhere else) has left its
        # files behind (only matters if something is cached on disk)
        cfg0 = make_config(nt, ns, case["cache"], case.get("footprint", True), case.get("variant", "plain"), src_loc=[20.0, 15.0], **opts)
        bi.run_bldfm_multitower(cfg0)
        bi.run_bldfm_parallel(cfg0, max_workers=2, parallel_over="towers")
    cfg = make_config(nt, ns, case["cache"], case.get("footprint", True), case.get("variant", "plain"), src_loc=[55.0, 40.0] if case.get("earlier_run_other_source") else None, **opts)
    orig_single, orig_ts = bi.run_bldfm_single, bi.run_bldfm_timeseries
    v = []
    # (1) reference single runs: fresh process, one thread, no cache
    ref = {t.name: [orig_single(cfg, t, met_index=i) for i in range(ns)] for t in cfg.towers}
    for lst in ref.values():
        for r_ in lst:
            r_["conc"], r_["flx"] = np.array(r_["conc"], copy=True), np.array(r_["flx"], copy=True)
    nexec = nt * ns
    # (2) parent thread state
    if case["parent_threads"] > 1:
        rt.NUM_THREADS = case["parent_threads"]
        r = orig_single(cfg, cfg.towers[0], met_index=0)
        nexec += 1
        d = _same_result(r, ref[cfg.towers[0].name][0])
        if d:
            v.append({"sub": "parent-threads", "sig": "parent-threads", "msg": "single run with %d threads vs 1 thread: %s; case %s" % (case["parent_threads"], d, core.canon(case))})
    # (3) serial drivers
    if case.get("serial", True):
        r = {t.name: bi.run_bldfm_timeseries(cfg, t) for t in cfg.towers}
        for m in _compare(r, ref, cfg, ns, "run_bldfm_timeseries"):
            v.append({"sub": "serial", "sig": "serial/timeseries", "msg": m + "; case " + core.canon(case)})
        _caller_overwrites(r)
        r = bi.run_bldfm_multitower(cfg)
        nexec += 2 * nt * ns
        for m in _compare(r, ref, cfg, ns, "run_bldfm_multitower"):
            v.append({"sub": "serial", "sig": "serial/multitower", "msg": m + "; case " + core.canon(case)})
    # (4) gate + recording executor
    npools = nt if strat == "time" else 1
    ntasks = {"towers": nt, "time": ns, "both": nt * ns}[strat]
    ctr = mp.Array("i", npools)
    gate_err = mp.Value("i", 0)
    started = mp.Array("i", npools * max(ntasks, 1))
    state = {"orders": None}
    tnames = [t.name for t in cfg.towers]

    def wait_turn(pool_idx, tid):
        started[pool_idx * ntasks + tid] = 1
        pos = state["orders"][pool_idx].index(tid)
        t0 = time.time()
        while ctr[pool_idx] != pos:
            if time.time() - t0 > 60:
                gate_err.value = 1
                raise RuntimeError("gate timeout")
            time.sleep(0.0005)
        # the counter is advanced by the PARENT when the future of the previous task completes there (done
        # callback of the recording executor), so passing the gate happens-after the arrival of every earlier
        # result in the parent: the forced completion order does not depend on timing

    def gated_single(config, tower, met_index=0, **kw):
        r = orig_single(config, tower, met_index=met_index, **kw)
        if strat == "both":
            wait_turn(0, tnames.index(tower.name) * ns + met_index)
        elif strat == "time":
            wait_turn(tnames.index(tower.name), met_index)
        return r

    def gated_ts(config, tower, **kw):
        r = orig_ts(config, tower, **kw)
        if strat == "towers":
            wait_turn(0, tnames.index(tower.name))
        return r

    pools = []

    class RecordingPool(RealPool):
        def __init__(self, *a, **k):
            super().__init__(*a, **k)
            self._vf_done = []
            self._vf_n = 0
            self._vf_workers = k.get("max_workers", a[0] if a else None)
            self._vf_idx = len(pools)
            pools.append(self)

        def _vf_arrived(self, n):
            self._vf_done.append(n)
            if self._vf_idx < npools:
                with ctr.get_lock():
                    ctr[self._vf_idx] += 1

        def submit(self, fn, *a, **k):
            fut = super().submit(fn, *a, **k)
            n = self._vf_n
            self._vf_n += 1
            fut.add_done_callback(lambda f, n=n: self._vf_arrived(n))
            return fut

    bi.run_bldfm_single, bi.run_bldfm_timeseries, bi.ProcessPoolExecutor = gated_single, gated_ts, RecordingPool
    traces = inversions = 0
    try:
        per_pool = [tuple(o) for o in case["orders"]]  # completion orders (0-based) of ONE pool of ntasks tasks
        schedules = list(itertools.product(per_pool, repeat=npools))
        for sched in schedules:
            state["orders"] = [list(o) for o in sched]
            for i in range(npools):
                ctr[i] = 0
            for i in range(len(started)):
                started[i] = 0
            del pools[:]
            res = bi.run_bldfm_parallel(cfg, max_workers=W, parallel_over=strat)
            nexec += nt * ns
            traces += 1
            # conformance: the seam was exercised and the implementation followed the model trace
            if gate_err.value:
                raise core.HarnessError("gate timeout: the model allowed order %r which the pool cannot produce (W=%d)" % (sched, W))
            if len(pools) != npools or any(p._vf_workers != W for p in pools):
                raise core.HarnessError("expected %d executor(s) with %d workers, saw %r" % (npools, W, [(p._vf_workers) for p in pools]))
            if sum(started) != npools * ntasks:
                raise core.HarnessError("gate passed by %d of %d tasks - the wrapped seam is no longer the task function" % (sum(started), npools * ntasks))
            observed = [tuple(p._vf_done) for p in pools]
            if observed != [tuple(o) for o in sched]:
                raise core.HarnessError("completion order observed in the parent %r != prescribed %r" % (observed, sched))
            if any(list(o) != sorted(o) for o in sched):
                inversions += 1
            cmp_msgs = _compare(res, ref, cfg, ns, "run_bldfm_parallel[%s, W=%d]" % (strat, W))
            _caller_overwrites(res)
            for m in cmp_msgs:
                v.append({"sub": "parallel", "sig": "parallel/%s/%s" % (strat, "inorder" if all(list(o) == sorted(o) for o in sched) else "reordered"),
                          "msg": "%s under completion order %r; case %s" % (m, [list(o) for o in sched], core.canon({k: case[k] for k in case if k != "orders"}))})
    finally:
        bi.run_bldfm_single, bi.run_bldfm_timeseries, bi.ProcessPoolExecutor = orig_single, orig_ts, RealPool
    return {"v": v[:6], "nt": inversions if inversions else (1 if traces else False), "key": core.canon({k: case[k] for k in case if k != "orders"}), "n": nexec,
            "obs": {"traces": traces, "traces_with_inversion": inversions, "tasks_per_pool": ntasks, "pools": npools,
                    "last_schedule_replayed_and_observed": [list(o) for o in schedules[-1]] if schedules else None}}


def cells(tier):
    shapes = [(1, 1), (1, 2), (2, 1), (2, 2), (1, 3)] if tier == "quick" else [(1, 1), (1, 2), (2, 1), (2, 2), (1, 3), (3, 1), (3, 2), (2, 3)]
    for shape, strat, W, pt, cache in itertools.product(shapes, ("towers", "time", "both"), (1, 2, 3, 4, 5), (1, 4), (False, True)):
        nt, ns = shape
        ntasks = {"towers": nt, "time": ns, "both": nt * ns}[strat]
        npools = nt if strat == "time" else 1
        if tier == "quick" and W == 4 and ntasks < 4:
            continue  # W=3 and W=5 already cover "more workers than tasks" for these
        if ntasks >= 6 and W >= 4 and (pt != 1 or cache):
            continue  # 384-600 orders per cell: replayed once (one thread setting, cache off)
        variant = ("plain", "dup-labels", "steady")[(W + nt + ns + (1 if cache else 0)) % 3]
        k_ = (2 * W + nt + 3 * ns + pt) % 5
        extra = [{}, {"levels": [1, 3]}, {"snap": True}, {"levels": [3, 0, 4], "single_row": True}, {"awkward": True}][k_]
        yield dict({"shape": list(shape), "strategy": strat, "W": W, "parent_threads": pt, "cache": cache, "ntasks": ntasks, "npools": npools, "variant": variant}, **extra)
    # dispersion mode with the cache switched on and an earlier run with another source in the same directory
    for shape, strat, W in itertools.product([(2, 2), (1, 3)] if tier == "quick" else [(2, 2), (1, 3), (2, 3)], ("towers", "time", "both"), (1, 2, 3)):
        nt, ns = shape
        ntasks = {"towers": nt, "time": ns, "both": nt * ns}[strat]
        if ntasks >= 6 and W >= 3:
            continue
        yield {"shape": list(shape), "strategy": strat, "W": W, "parent_threads": 1, "cache": True, "footprint": False, "ntasks": ntasks, "npools": nt if strat == "time" else 1, "earlier_run_other_source": True, "variant": "plain"}
    if tier != "quick":
        for shape, strat, W in itertools.product([(2, 2), (1, 3)], ("towers", "time", "both"), (1, 2, 3)):
            nt, ns = shape
            ntasks = {"towers": nt, "time": ns, "both": nt * ns}[strat]
            yield {"shape": list(shape), "strategy": strat, "W": W, "parent_threads": 1, "cache": False, "footprint": False, "ntasks": ntasks, "npools": nt if strat == "time" else 1}


def run(ctx):
    from concurrent.futures import ThreadPoolExecutor

    core.warm_numba()
    cl = list(cells(ctx.tier))
    combos = sorted({(c["ntasks"], c["W"]) for c in cl})
    t0 = time.time()
    with ThreadPoolExecutor(8) as ex:
        tl = list(ex.map(lambda nw: poolmodel.tlc_model(nw[0], nw[1], ctx.tmp_root), combos))
    model = {}
    states = transitions = 0
    used_tlc = True
    for (N, W), t in zip(combos, tl):
        ps, ptr, pord = poolmodel.python_model(N, W)
        if t is None:
            used_tlc = False
            t = {"states": ps, "transitions": ptr, "orders": pord}
        elif (t["states"], t["transitions"], [tuple(o) for o in t["orders"]]) != (ps, ptr, [tuple(o) for o in pord]):
            raise core.HarnessError("TLC and the Python enumerator disagree on the pool model for N=%d W=%d: %r vs %r" % (N, W, (t["states"], t["transitions"], len(t["orders"])), (ps, ptr, len(pord))))
        model[(N, W)] = t
        states += t["states"]
        transitions += t["transitions"]
    model_wall = round(time.time() - t0, 1)
    for c in cl:
        c["orders"] = [[x - 1 for x in o] for o in model[(c["ntasks"], c["W"])]["orders"]]
    res = core.run_forked(ctx, case_pool, cl, sub="pool-cell", nproc=8)
    ctx.run_cases(driverfail.case_failing_step, driverfail.cases(ctx.tier), sub="series with an unusable step / process state: deliver nothing or deliver it right", chunksize=1)
    traces = int(sum(r.get("obs", {}).get("traces", 0) for r in res))
    ctx.cov.update(
        {
            "states": states,
            "transitions": transitions,
            "traces_validated_against_impl": traces,
            "traces_with_inversion": int(sum(r.get("obs", {}).get("traces_with_inversion", 0) for r in res)),
            "model": "models/PoolMap.tla explored by %s; (tasks, workers) pairs: %s" % ("TLC (-dump dot,actionlabels) and cross-checked by vf/poolmodel.python_model" if used_tlc else "the Python enumerator only (TLC not found)", combos),
            "model_orders_per_pair": {"N=%d,W=%d" % k: len(m["orders"]) for k, m in model.items()},
            "model_wall_s": model_wall,
            "conformance": "every trace: observed completion order in the parent == model trace; all gates passed; executor count and worker count as modelled (else harness error)",
        }
    )
    big = [r for r, c in zip(res, cl) if c["ntasks"] >= 4 and c["W"] >= 3][:3]
    ctx.samples[:0] = [{"check": "trace", "case": {k: c[k] for k in c if k != "orders"}, "observed": r.get("obs")} for r, c in zip(res, cl) if r in big]
    ctx.rule = (
        "cells = shapes x strategies x W 1..5 x parent threads {1,4} x cache {off,on}; inside a cell EVERY terminal trace of the pool model for its (tasks, workers) pair "
        "(for strategy 'time' the product over the towers' pools) is replayed; distinct_nontrivial counts replayed schedules containing at least one inversion w.r.t. submission order "
        "(cells whose only schedule is in order count once); evaluations counts single-run executions"
    )
    ctx.assumptions += ["FIFO dispatch of ProcessPoolExecutor (validated per trace by the observed completion order)", "threads inside one worker are not scheduled by the harness"]
