"""C16 - met series: one step per list entry, scalars broadcast, mismatches rejected.

Alphabet: the 2^4 list/scalar patterns of (ustar, mol, wind_speed, wind_dir)
x list length 1..4 x (no list shortened | list k shortened by one) x timestamps
{absent, right length, one short, one long} x forcing {ustar, z0, both, neither}; every accepted forcing additionally
with zero-valued scalars / first list entries (wind_dir = 0 is wind from north - a legitimate, falsy value).
The whole product is enumerated.  Oracle: vf/oracles/metseries.py.
Observed on the implementation: acceptance/rejection by parse_config_dict and by
BLDFMConfig(...) directly, n_timesteps, get_step(i) for every i, and the step
indices with which every consumer of the step count calls the single run
(run_bldfm_timeseries, run_bldfm_multitower, cli.cmd_run on the YAML file,
run_bldfm_parallel 'time' and 'both' through an in-process executor)."""

import itertools
import os

from vf import bigcases
from vf import core
from vf import driverfail
from vf.oracles import metseries

PROPERTY = "C16"
LEVEL = "exploration"
FIELDS = metseries.FIELDS


def enumerate_cases(tier):
    lmax = 4 if tier == "quick" else 5
    for forcing in ("ustar", "z0", "both", "neither"):
        for pat in itertools.product((0, 1), repeat=4):
            if pat[0] and forcing in ("z0", "neither"):
                continue  # ustar absent cannot be a list
            nlists = sum(pat)
            lengths = range(1, lmax + 1) if nlists else (1,)
            for L in lengths:
                shorts = [None]
                if nlists >= 2 and L >= 2:
                    shorts += [k for k in range(4) if pat[k]]
                for short in shorts:
                    for ts in ("absent", "right", "short", "long"):
                        yield {"forcing": forcing, "pat": list(pat), "L": L, "short": short, "ts": ts}
                        if short is None and ts in ("absent", "right"):
                            # the same forcing with zero-valued entries (wind from north, calm, ...): legitimate values that are falsy
                            yield {"forcing": forcing, "pat": list(pat), "L": L, "short": short, "ts": ts, "zeros": True}
                            if L >= 2:
                                # every list holds the same value at every step (steady conditions): steps still count one by one
                                yield {"forcing": forcing, "pat": list(pat), "L": L, "short": short, "ts": ts, "constant": True}


def build_met(case, seed):
    rng = core.case_rng(seed, "c16-values")
    base = {
        "ustar": 0.2 + 0.3 * rng.random(),
        "mol": -(20.0 + 100 * rng.random()),
        "wind_speed": 2.0 + 3 * rng.random(),
        "wind_dir": 360 * rng.random(),
    }
    step = {"ustar": 0.013, "mol": -7.0, "wind_speed": 0.11, "wind_dir": 3.7}
    if case.get("zeros"):
        base.update({"mol": 0.0, "wind_speed": 0.0, "wind_dir": 0.0})
    met = {}
    L = case["L"]
    for k, f in enumerate(FIELDS):
        if f == "ustar" and case["forcing"] in ("z0", "neither"):
            continue
        if case["pat"][k]:
            n = L - 1 if case["short"] == k else L
            # full-precision values (not short decimals): step i must be the entry itself, not a rounded or re-parsed copy
            met[f] = [base[f] + (0 if case.get("constant") else i) * step[f] * (1.0 + 1.0 / 7.0) for i in range(n)]
        else:
            met[f] = base[f] / 3.0 * 3.0000000001
    if case["forcing"] in ("z0", "both"):
        met["z0"] = 0.07
    n_nom = L if any(case["pat"]) else 1
    if case["ts"] != "absent":
        n_ts = {"right": n_nom, "short": n_nom - 1, "long": n_nom + 1}[case["ts"]]
        met["timestamps"] = ["2024-06-0%dT12:00" % (i + 1) for i in range(n_ts)]
    return met


RAW_BASE = {
    "domain": {"nx": 8, "ny": 6, "xmax": 80.0, "ymax": 60.0, "nz": 4, "modes": [8, 6]},
    "towers": [
        {"name": "a", "lat": 0.0, "lon": 0.0, "z_m": 5.0},
        {"name": "b", "lat": 0.0, "lon": 0.0, "z_m": 7.0},
    ],
}


class _SerialPool:
    """In-process stand-in for ProcessPoolExecutor (only used to observe which
    (tower, step) tasks the parallel driver generates; schedules are C14's job)."""

    def __init__(self, max_workers=None):
        pass

    def __enter__(self):
        return self

    def __exit__(self, *a):
        return False

    def map(self, fn, tasks):
        return [fn(t) for t in tasks]


def case_series(case):
    import argparse

    import yaml

    import bldfm.cli
    import bldfm.interface as itf
    from bldfm import config as rtcfg
    from bldfm.config_parser import (
        BLDFMConfig,
        DomainConfig,
        MetConfig,
        TowerConfig,
        parse_config_dict,
    )

    seed = int(os.environ.get("VERIF_SEED", "0") or 0)
    met = build_met(case, seed)
    v = []
    sigbase = "pat=%s/forcing=%s/ts=%s/short=%s" % (
        "".join(map(str, case["pat"])),
        case["forcing"],
        case["ts"],
        "none" if case["short"] is None else FIELDS[case["short"]],
    )
    try:
        exp = metseries.steps(met)
        exp_reject = None
    except metseries.Reject as e:
        exp, exp_reject = None, str(e)

    raw = dict(RAW_BASE, met=met)

    # (1) acceptance through both construction paths
    cfgs = {}
    for how in ("parse_config_dict", "BLDFMConfig"):
        try:
            if how == "parse_config_dict":
                cfgs[how] = parse_config_dict(raw)
            else:
                cfgs[how] = BLDFMConfig(
                    domain=DomainConfig(nx=8, ny=6, xmax=80.0, ymax=60.0, nz=4, modes=(8, 6)),
                    towers=[TowerConfig(name="a", lat=0.0, lon=0.0, z_m=5.0)],
                    met=MetConfig(**met),
                )
            got_reject = None
        except Exception as e:  # any exception while building == rejected
            got_reject = "%s: %s" % (type(e).__name__, e)
        if (exp_reject is None) != (got_reject is None):
            v.append(
                {
                    "sub": "acceptance",
                    "sig": "acceptance/%s/ts=%s/short=%s" % (how, case["ts"], case["short"] is not None),
                    "msg": "%s: model %s, implementation %s; met=%r"
                    % (
                        how,
                        "accepts" if exp_reject is None else "rejects (%s)" % exp_reject,
                        "accepts" if got_reject is None else "rejects (%s)" % got_reject,
                        met,
                    ),
                }
            )
    nexec = 2
    if exp is None or "parse_config_dict" not in cfgs:
        return {"v": v, "nt": True, "n": nexec, "obs": {"model": "reject", "why": exp_reject}}

    cfg = cfgs["parse_config_dict"]
    n = len(exp)
    # (2) step count and every step
    for how, c in cfgs.items():
        if c.met.n_timesteps != n:
            v.append(
                {
                    "sub": "n_timesteps",
                    "sig": "n_timesteps/pat=%s" % "".join(map(str, case["pat"])),
                    "msg": "%s: n_timesteps=%r, expected %d for met=%r" % (how, c.met.n_timesteps, n, met),
                }
            )
        for i in range(n):
            try:
                got = c.met.get_step(i)
            except Exception as e:
                got = {"exception": repr(e)}
            bad = {k: (got.get(k, "<missing>"), ev) for k, ev in exp[i].items() if got.get(k, "<missing>") != ev}
            if bad:
                v.append(
                    {
                        "sub": "get_step",
                        "sig": "get_step/pat=%s" % "".join(map(str, case["pat"])),
                        "msg": "%s: get_step(%d) differs (got, expected): %r; met=%r" % (how, i, bad, met),
                    }
                )
                break

    # (3) consumers of the step count
    calls = []

    def stub(config, tower, met_index=0, surface_flux=None, cache=None):
        calls.append((tower.name, met_index))
        return {
            "tower_name": tower.name,
            "timestamp": config.met.get_step(met_index)["timestamp"] if met_index < n else None,
            "i": met_index,
        }

    saved = (itf.run_bldfm_single, bldfm.cli.run_bldfm_single, bldfm.cli.initialize, itf.ProcessPoolExecutor)
    saved_rt = (rtcfg.NUM_THREADS, rtcfg.MAX_WORKERS, rtcfg.USE_CACHE)
    try:
        itf.run_bldfm_single = stub
        bldfm.cli.run_bldfm_single = stub
        bldfm.cli.initialize = lambda *a, **k: None
        itf.ProcessPoolExecutor = _SerialPool
        names = [t.name for t in cfg.towers]
        want_one = lambda nm: [(nm, i) for i in range(n)]  # noqa
        want_all = [x for nm in names for x in want_one(nm)]

        def expect(label, want, ret_len=None, got_len=None):
            nonlocal nexec
            nexec += 1
            if calls != want or (ret_len is not None and ret_len != got_len):
                v.append(
                    {
                        "sub": "consumer",
                        "sig": "consumer/%s" % label,
                        "msg": "%s called the single run with %r (returned %r items); expected %r; met=%r"
                        % (label, calls[:12], got_len, want[:12], met),
                    }
                )
            calls.clear()

        r = itf.run_bldfm_timeseries(cfg, cfg.towers[0])
        expect("run_bldfm_timeseries", want_one("a"), n, len(r))
        r = itf.run_bldfm_multitower(cfg)
        expect("run_bldfm_multitower", want_all, [n, n], [len(r[k]) for k in names])
        for strat in ("time", "both", "towers"):
            r = itf.run_bldfm_parallel(cfg, max_workers=2, parallel_over=strat)
            expect("run_bldfm_parallel[%s]" % strat, want_all, [n, n], [len(r[k]) for k in names])
        path = os.path.join(os.getcwd(), "cfg_%s.yaml" % core.case_hash(case))
        with open(path, "w") as f:
            yaml.safe_dump(raw, f)
        try:
            bldfm.cli.cmd_run(argparse.Namespace(config=path, dry_run=False, plot=False))
        finally:
            os.unlink(path)
        expect("cli.cmd_run", want_all)
    finally:
        itf.run_bldfm_single, bldfm.cli.run_bldfm_single, bldfm.cli.initialize, itf.ProcessPoolExecutor = saved
        rtcfg.NUM_THREADS, rtcfg.MAX_WORKERS, rtcfg.USE_CACHE = saved_rt

    nontrivial = any(case["pat"]) or case["ts"] != "absent"
    return {"v": v, "nt": nontrivial, "n": nexec, "obs": {"model_steps": n, "first": exp[0]}}


def case_yaml_history(case):
    """one configuration file rewritten in place and loaded again: every load must reflect what the file says NOW"""
    import yaml

    from bldfm.config_parser import load_config

    path = os.path.join(os.getcwd(), "shared_%s.yaml" % core.case_hash(case))
    v = []
    try:
        for k, i in enumerate(case["ops"]):
            met = dict(YAML_METS[i])
            with open(path, "w") as f:
                yaml.safe_dump(dict(RAW_BASE, met=met), f)
            try:
                exp = metseries.steps(met)
            except metseries.Reject as e:
                exp = None
            try:
                cfg = load_config(path)
                got = [cfg.met.get_step(j) for j in range(cfg.met.n_timesteps)]
            except Exception as e:
                got = None
            ok = (exp is None and got is None) or (exp is not None and got is not None and len(got) == len(exp) and all(all(g.get(kk) == vv for kk, vv in e.items()) for g, e in zip(got, exp)))
            if not ok:
                v.append({"sub": "yaml-history", "sig": "yaml-history", "msg": "load %d of the history %s on one file path: the file now holds met=%r but the loaded configuration gives %s" % (k, case["ops"], met, "a rejection" if got is None else "%d steps, first %r" % (len(got), got[:1]))})
                break
    finally:
        if os.path.exists(path):
            os.unlink(path)
    return {"v": v, "nt": len(case["ops"]) > 1, "n": len(case["ops"])}


YAML_METS = [
    {"ustar": 0.4, "wind_dir": [10.0, 20.0, 30.0]},
    {"ustar": [0.3, 0.5], "mol": [-40.0, 60.0], "timestamps": ["a", "b"]},
    {"ustar": [0.3, 0.5], "mol": [-40.0, 60.0, 70.0]},
    {"wind_speed": 3.0},
    {"z0": 0.1, "wind_speed": [2.0, 3.0, 4.0, 5.0], "timestamps": ["p", "q", "r", "s"]},
]

HIST_OPS = [
    {"ustar": 0.4, "wind_dir": [10.0, 20.0, 30.0]},
    {"ustar": [0.3, 0.5], "mol": [-40.0, 60.0], "timestamps": ["a", "b"]},
    {"z0": 0.1, "wind_speed": [2.0, 3.0, 4.0, 5.0]},
    {"ustar": 0.25},
    {"ustar": 0.4, "z0": 0.2, "wind_dir": 0.0, "timestamps": ["only"]},
]


def hist_op(i):
    from bldfm.config_parser import MetConfig, parse_config_dict

    met = dict(HIST_OPS[i])
    cfg = parse_config_dict(dict(RAW_BASE, met=met))
    direct = MetConfig(**met)
    direct.validate()
    return (cfg.met.n_timesteps, [cfg.met.get_step(k) for k in range(cfg.met.n_timesteps)], direct.n_timesteps, [direct.get_step(k) for k in range(direct.n_timesteps)],
            [(t.name, t.x, t.y) for t in cfg.towers])


def run(ctx):
    os.environ["VERIF_SEED"] = str(ctx.seed)
    ctx.rule = (
        "complete product forcing{ustar,z0,both,neither} x 2^4 list/scalar patterns x length 1..%d x "
        "{no list | list k} one entry short x timestamps{absent,right,short,long}; non-trivial = at least one "
        "list-valued field or a timestamps list (the series logic is exercised); distinct = distinct case tuples"
        % (4 if ctx.tier == "quick" else 5)
    )
    ctx.assumptions += [
        "the single run is stubbed while observing the drivers' step indices (what a step computes is C13/C14)",
        "numeric forcing values are seeded and irrelevant to the property; all entries of a list are distinct",
    ]
    ctx.run_cases(case_series, enumerate_cases(ctx.tier), sub="series")
    # step i stays step i when another step of the series cannot be solved (serial consumers of the step count)
    ctx.run_cases(driverfail.case_failing_step, [c for c in driverfail.cases(ctx.tier) if not c["driver"].startswith("parallel") and c["kind"] != driverfail.OVERSUBSCRIBED],
                  sub="series with an unusable step: deliver nothing or deliver it right", chunksize=1)
    from vf import histories

    histories.run(ctx, __name__, 2 if ctx.tier == "quick" else 3)
    yh = [{"ops": list(h)} for d in (2, 3) for h in itertools.product(range(len(YAML_METS)), repeat=d)]
    ctx.run_cases(case_yaml_history, yh, sub="yaml-file-histories")
    bigcases.run(ctx, "C16")


MANIFEST = {
    "technique": "bounded-exhaustive enumeration of the complete forcing lattice against a list reference model, with step indices observed at every consumer",
    "text": "Every forcing in the finite lattice (forcing kind x 2^4 list/scalar patterns x lengths x one-short list x timestamp length) is built through both construction paths and compared with a list model: acceptance, step count, every step, and the indices every driver (timeseries, multitower, parallel strategies, CLI) hands to the single run. The space is small enough to enumerate completely, which is exactly what the property quantifies over.",
    "note": "Trusted: the reference model vf/oracles/metseries.py (30 lines). Field values are seeded; only list-ness, lengths and presence matter to the property. The single run is stubbed here.",
}
