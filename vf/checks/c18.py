"""C18 - NetCDF export/import is lossless and keeps every label attached to its data.

Lattice: towers 1..4 x steps 1..4 x {2-D, 3-D} x value classes {index-encoded (value = f(time, tower,
level, j, i), so any misplacement is visible), negative, denormal 1e-310, huge 1e30} x input dtype
{float64, float32} x timestamps {ISO strings, integers (index)} x forcing {ustar list, z0 with list wind,
z0 with scalar wind (steps=1)}; plus solver-produced result sets from run_bldfm_multitower (2-D and 3-D); plus HISTORIES: all sequences of
(save result set k to path p, load p) of length 2 (thorough 3) over 4 result sets x 2 paths that reuse a path -
every load must return what was saved last to that path.  Tower names are deliberately not in alphabetical order.
Oracle after save + load: footprint / concentration bit-equal for every (time, tower[, level]); x, y (z) equal
the grid; time labels == str(timestamp); tower names in order, each with its own lat / lon / height; ustar, mol,
wind per step (NaN iff the forcing has no ustar); .sel(tower=name) / .sel(time=label) return exactly that
tower's / step's fields."""

import itertools
import os

import numpy as np

from vf import core

PROPERTY = "C18"
LEVEL = "exploration"
MANIFEST = {
    "technique": "bounded-exhaustive enumeration of the (towers, steps, dimensionality, value class, dtype, timestamp kind, forcing kind) lattice through save + load; index-encoded payloads as misplacement oracle",
    "text": "Every lattice point is written and read back through the public save/load functions and compared element by element and label by label. The index-encoded value class makes every element's value a function of its (time, tower, level, row, column), so a transposed axis, swapped variables, tower metadata in another order or a lossy encoding cannot cancel out; denormal and 1e30 values expose reduced-precision storage.",
    "note": "Result dicts are in configuration order, as the drivers produce them. A 2-D file has no z coordinate (height is per tower: tower_z). float32 inputs must come back numerically equal (they are widened on save).",
}

NX, NY = 5, 3
TOW = [("west_mast", 50.001, 10.002, 5.0), ("hill_top", 50, 10.0005, 7), ("east_mast", 49.999, 10.006, 3.0), ("alpha", 50.0025, 9.998, 12.0)]  # deliberately not in alphabetical order


def lattice(tier):
    for nt, ns, threed, vc, dt, ts, forcing in itertools.product((1, 2, 3, 4), (1, 2, 3, 4), (False, True), ("index", "negative", "denormal", "huge", "simple-flx", "near-max"), ("float64", "float32"), ("iso", "index", "width", "epoch", "repeated", "zero-later"), ("ustar", "z0-list", "z0-scalar")):
        if forcing == "z0-scalar" and ns != 1:
            continue
        if tier == "quick" and vc != "index" and not (nt in (1, 3) and ns in (1, 2)):
            continue
        if dt == "float32" and vc in ("denormal", "huge", "simple-flx", "near-max"):
            continue  # not representable
        yield {"nt": nt, "ns": ns, "threed": threed, "values": vc, "dtype": dt, "ts": ts, "forcing": forcing}
        if vc == "index" and dt == "float64" and forcing != "z0-scalar" and ts in ("iso", "index"):
            # the result set is not simply "every step of the configuration in order": steps picked from a longer forcing in
            # another order (single runs assembled by the caller), or the configuration object edited after the runs
            for asm in ("picked-steps", "config-edited"):
                yield {"nt": nt, "ns": ns, "threed": threed, "values": vc, "dtype": dt, "ts": ts, "forcing": forcing, "assembly": asm}


def build(case):
    from bldfm.config_parser import parse_config_dict

    nt, ns_out = case["nt"], case["ns"]
    asm = case.get("assembly", "all")
    ns = ns_out + 2 if asm == "picked-steps" else ns_out  # length of the forcing
    steps = list(range(ns - 1, 1, -1))[:ns_out] if asm == "picked-steps" else list(range(ns_out))
    met = {"mol": [-50.0 - 3 * i for i in range(ns)], "wind_speed": [2.0 + 0.5 * i for i in range(ns)], "wind_dir": [10.0 + 70 * i for i in range(ns)]}
    if case["forcing"] == "ustar":
        met["ustar"] = [0.3 + 0.05 * i for i in range(ns)]
    elif case["forcing"] == "z0-list":
        met["z0"] = 0.08
    else:
        met = {"z0": 0.08, "mol": -40.0, "wind_speed": 2.5, "wind_dir": 33.0}
    if case["nt"] % 2 == 0 and case["forcing"] != "z0-scalar":
        # whole numbers written as integers (YAML style)
        met["wind_dir"] = [10 + 70 * i for i in range(ns)]
        met["mol"] = [-50 - 3 * i for i in range(ns)]
    if case["ts"] == "iso":
        met["timestamps"] = ["2024-03-%02dT06:30" % (i + 1) for i in range(ns)]
    elif case["ts"] == "width":
        # labels of different printed widths, narrowest first (integers crossing a power of ten, mixed date / date-time strings)
        met["timestamps"] = ([8, 9, 10, 11, 12, 13] if case["nt"] % 2 else ["9:30", "10:00", "2024-03-01", "2024-03-01T10:00", "x", "y"])[:ns]
    elif case["ts"] == "repeated":
        # the same label on two steps with different forcing (the repeated hour of a night the clocks go back; a logger that
        # stamps whole minutes): positions, not labels, say which record is which
        met["timestamps"] = (["2024-10-27T02:00", "2024-10-27T02:30", "2024-10-27T02:00", "2024-10-27T02:30", "2024-10-27T03:00", "2024-10-27T03:00"] if case["nt"] % 2 else [7, 7, 8, 8, 8, 9])[:ns]
    elif case["ts"] == "zero-later":
        # integer labels with the (falsy) label 0 at a step other than the first: hours across midnight, a countdown
        met["timestamps"] = ([22, 23, 0, 1, 2, 3] if case["nt"] % 2 else [2, 1, 0, -1, -2, -3])[:ns]
    elif case["ts"] == "epoch":
        # numeric labels with many significant digits: seconds since 1970 (integers), fractional day numbers (floats)
        met["timestamps"] = ([1709272800, 1709274600, 1709276400, 1709278200, 1709280000, 1709281800] if case["nt"] % 2 else [20240301.25, 20240301.5, 20240301.75, 20240302.0, 20240302.25, 20240302.5])[:ns]
    cfg = parse_config_dict({
        "domain": {"nx": NX, "ny": NY, "xmax": 50.0, "ymax": 45.0, "nz": 4, "ref_lat": 50.0, "ref_lon": 10.0},
        "towers": [{"name": n, "lat": la, "lon": lo, "z_m": z} for n, la, lo, z in TOW[:nt]],
        "met": met,
    })
    x, y = np.arange(NX) * 10.0, np.arange(NY) * 15.0
    zl = np.array([0.7, 2.9])
    res = {}
    for ti, t in enumerate(cfg.towers):
        lst = []
        for s in steps:
            if case["threed"]:
                Z, Y, X = np.meshgrid(zl, y, x, indexing="ij")
                l, j, i = np.meshgrid(np.arange(2), np.arange(NY), np.arange(NX), indexing="ij")
            else:
                Y, X = np.meshgrid(y, x, indexing="ij")
                Z = np.full((NY, NX), t.z_m)
                j, i = np.meshgrid(np.arange(NY), np.arange(NX), indexing="ij")
                l = 0 * j
            code = 1e4 * s + 1e3 * ti + 100.0 * l + 10.0 * j + i + 1.0 / 3.0  # not representable in float32
            if case["values"] == "index":
                flx, conc = code, -code - 0.25
            elif case["values"] == "negative":
                flx, conc = -code * 1e-3, -1.0 / (code + 1.0)
            elif case["values"] == "denormal":
                flx, conc = code * 1e-310, -code * 4.9e-324
            elif case["values"] == "simple-flx":
                # footprints that happen to be exactly representable in single precision (whole numbers, zeros) next to
                # concentrations that are not
                flx, conc = np.floor(code) * (i % 2), -(code + 1.0 / 7.0) * 1e-3
            elif case["values"] == "near-max":
                # every value finite, but close enough to the largest double that their SUM is not (3.3e4 * 5e303 = 1.7e308)
                flx, conc = code * 5e303, -code * 5e303
            else:
                flx, conc = code * 1e30, -code * 1.7e300
            step = cfg.met.get_step(s)
            stamp = step["timestamp"]
            if case["ts"] == "index" and case["nt"] % 2 == 1:
                # the caller relabels the results of an index-stamped run with real time labels before saving them
                stamp = "2024-05-%02dT00:00" % (s + 1)
            lst.append({"grid": (X, Y, Z), "conc": conc.astype(case["dtype"]), "flx": flx.astype(case["dtype"]), "tower_name": t.name, "tower_xy": (t.x, t.y), "timestamp": stamp, "params": dict(step)})
        res[t.name] = lst
    if asm == "config-edited":
        # the caller goes on working with the configuration object (next experiment) before saving the finished results
        for fld in ("ustar", "wind_dir", "mol", "wind_speed"):
            val = getattr(cfg.met, fld)
            if isinstance(val, list):
                setattr(cfg.met, fld, [vv_ * 1.5 + 1.0 for vv_ in val])
    return cfg, res, x, y, zl


def verify(cfg, res, x, y, zl, threed, path, lab):
    from bldfm.io import load_footprints_from_netcdf, save_footprints_to_netcdf

    v = []

    def bad(sub, msg):
        v.append({"sub": sub, "sig": sub, "msg": "%s; %s" % (msg, lab)})

    save_footprints_to_netcdf(res, cfg, path)
    # a first reader post-processes what it loaded IN PLACE (normalises footprints, converts units) and closes it;
    # the file is untouched, so the next load must still return what was saved
    try:
        ds0 = load_footprints_from_netcdf(path)
        try:
            ds0 = ds0.load()
            for nm in ("footprint", "concentration", "ustar", "wind_dir"):
                ds0[nm].values[...] = ds0[nm].values * 0.0 + 123.0
        finally:
            ds0.close()
    except Exception as e:
        bad("structure", "first load failed: %s: %s" % (type(e).__name__, str(e)[:100]))
    ds = load_footprints_from_netcdf(path)
    try:
        _compare_loaded(ds, cfg, res, x, y, zl, threed, bad)
    except Exception as e:  # the loaded dataset does not even have the structure of what was saved
        bad("structure", "the loaded dataset cannot be read as the saved result set (%s: %s); dims %s" % (type(e).__name__, str(e)[:120], dict(ds.sizes)))
    finally:
        ds.close()
    return v


def _compare_loaded(ds, cfg, res, x, y, zl, threed, bad):
    if True:
        names = [t.name for t in cfg.towers]
        ns = len(res[names[0]])
        if [str(n) for n in ds["tower"].values] != names:
            bad("tower-names", "tower coordinate %r, expected %r" % (list(ds["tower"].values), names))
        labels = [str(res[names[0]][s]["timestamp"]) for s in range(ns)]
        if [str(t) for t in ds["time"].values] != labels:
            bad("time-labels", "time coordinate %r, expected %r" % (list(ds["time"].values), labels))
        if not np.array_equal(ds["x"].values, x) or not np.array_equal(ds["y"].values, y):
            bad("xy", "x/y coordinates differ from the grid: %r %r" % (ds["x"].values, ds["y"].values))
        if threed and ("z" not in ds.coords or not np.array_equal(ds["z"].values, zl)):
            bad("z", "z coordinate %r, expected %r" % (ds["z"].values if "z" in ds.coords else None, zl))
        for ti, t in enumerate(cfg.towers):
            for nm, want in (("tower_lat", t.lat), ("tower_lon", t.lon), ("tower_z", t.z_m)):
                got = float(ds[nm].sel(tower=t.name).values)
                if got != want:
                    bad("tower-metadata", "%s of tower %s is %r, expected %r" % (nm, t.name, got, want))
            for s in range(ns):
                for var, key in (("footprint", "flx"), ("concentration", "conc")):
                    want = np.asarray(res[t.name][s][key], dtype=np.float64)
                    got = ds[var].values[s, ti]
                    if got.shape != want.shape or not np.array_equal(got, want):
                        bad("payload", "%s[time %d, tower %d] differs from the saved %s (max |diff| %s)" % (var, s, ti, key, np.max(np.abs(got - want)) if got.shape == want.shape else "shape %s vs %s" % (got.shape, want.shape)))
                    if labels.count(labels[s]) > 1:
                        continue  # a label carried by several steps does not select one of them
                    got2 = ds[var].sel(tower=t.name).sel(time=labels[s]).values
                    if got2.shape != want.shape or not np.array_equal(got2, want):
                        bad("select", "%s.sel(tower=%r, time=%r) does not return that tower's and step's field" % (var, t.name, labels[s]))
        for s in range(ns):
            p = res[names[0]][s]["params"]
            for nm in ("ustar", "mol", "wind_speed", "wind_dir"):
                got = float(ds[nm].values[s])
                want = p[nm]
                if want is None:
                    if not np.isnan(got):
                        bad("met", "%s[%d] is %r for a forcing without %s (expected NaN)" % (nm, s, got, nm))
                elif got != want:
                    bad("met", "%s[%d] is %r, step value %r" % (nm, s, got, want))


def case_relative(case):
    """the file named by a RELATIVE path, in a working directory the caller changed to after importing the library: save
    and load name the same file (the one in the current directory)"""
    cfg, res, x, y, zl = build(case)
    here = os.getcwd()
    d = os.path.join(here, "workdir_%s" % core.case_hash(case))
    os.makedirs(d, exist_ok=True)
    os.chdir(d)
    name = "verif_c18_relative_%s.nc" % core.case_hash(case)
    try:
        v = verify(cfg, res, x, y, zl, case["threed"], name, "relative path in a directory entered after import; case " + core.canon(case))
        if not os.path.exists(os.path.join(d, name)):
            v.append({"sub": "relative-path", "sig": "relative-path", "msg": "save_footprints_to_netcdf(%r) with the current directory %s did not create that file there" % (name, d)})
    except FileNotFoundError as e:
        v = [{"sub": "relative-path", "sig": "relative-path", "msg": "saved and loaded under the same relative name in one working directory: %s" % e}]
    finally:
        os.chdir(here)
        for dd in (d, here, core.VERIF):
            try:
                os.unlink(os.path.join(dd, name))
            except OSError:
                pass
    return {"v": v[:3], "nt": True, "n": 1}


def case_file(case):
    cfg, res, x, y, zl = build(case)
    path = os.path.join(os.getcwd(), "f_%s.nc" % core.case_hash(case))
    try:
        v = verify(cfg, res, x, y, zl, case["threed"], path, "case " + core.canon(case))
    finally:
        if os.path.exists(path):
            os.unlink(path)
    return {"v": v[:5], "nt": True, "n": 1, "obs": {"elements": case["nt"] * case["ns"] * NX * NY * (2 if case["threed"] else 1) * 2}}


HIST_SETS = [
    {"nt": 2, "ns": 2, "threed": False, "values": "index", "dtype": "float64", "ts": "iso", "forcing": "ustar"},
    {"nt": 2, "ns": 2, "threed": False, "values": "negative", "dtype": "float64", "ts": "iso", "forcing": "ustar"},
    {"nt": 3, "ns": 1, "threed": True, "values": "index", "dtype": "float64", "ts": "index", "forcing": "z0-scalar"},
    {"nt": 1, "ns": 3, "threed": False, "values": "huge", "dtype": "float64", "ts": "index", "forcing": "z0-list"},
]


def case_history(case):
    """histories of save/load on TWO reused paths: after every save the next load of that path must return exactly
    what was saved last (no state kept between calls)"""
    v = []
    paths = [os.path.join(os.getcwd(), "h%s_%d.nc" % (core.case_hash(case), k)) for k in range(2)]
    n = 0
    try:
        for step, (pi, si) in enumerate(case["ops"]):
            cfg, res, x, y, zl = build(HIST_SETS[si])
            vv = verify(cfg, res, x, y, zl, HIST_SETS[si]["threed"], paths[pi], "history %s, step %d (result set %d written to path %d)" % (case["ops"], step, si, pi))
            n += 1
            for d in vv:
                d["sig"] = "history/" + d["sig"]
            v += vv
            if v:
                break
    finally:
        for p in paths:
            if os.path.exists(p):
                os.unlink(p)
    return {"v": v[:4], "nt": len(case["ops"]) > 1, "n": n}


def case_held_open(case):
    """a result set is saved onto a path whose previous content is still held open by the dataset an earlier load returned
    (lazy loading keeps the file open until the caller closes it), with the working directory elsewhere: the save either
    raises and leaves the old file intact, or returns - and then the next load of that path is the NEW result set.
    Nothing is written anywhere else."""
    import pathlib
    import shutil

    from bldfm.io import load_footprints_from_netcdf, save_footprints_to_netcdf

    a, b = case["sets"]
    outdir = os.path.join(os.getcwd(), "out_%s" % core.case_hash(case))
    os.makedirs(outdir, exist_ok=True)
    path = os.path.join(outdir, "results.nc")
    arg = pathlib.Path(path) if case["path_form"] == "Path" else path
    v = []

    def bad(sub, msg):
        v.append({"sub": "held-open", "sig": "held-open/" + sub, "msg": "%s; case %s" % (msg, core.canon(case))})

    held = None
    try:
        cfgA, resA, xA, yA, zA = build(HIST_SETS[a])
        cfgB, resB, xB, yB, zB = build(HIST_SETS[b])
        save_footprints_to_netcdf(resA, cfgA, arg)
        before = set(os.listdir(os.getcwd()))
        if case["hold"]:
            held = load_footprints_from_netcdf(arg)
            _ = held["footprint"].shape  # looked at, not closed
        try:
            save_footprints_to_netcdf(resB, cfgB, arg)
            outcome = "returned"
        except Exception as e:  # noqa
            outcome = "raised " + type(e).__name__
        if held is not None:
            held.close()
            held = None
        stray = sorted(set(os.listdir(os.getcwd())) - before)
        if stray:
            bad("stray-file", "the save wrote %r into the working directory (requested path: %s)" % (stray, path))
        cfgW, resW, xW, yW, zW, thr = (cfgB, resB, xB, yB, zB, HIST_SETS[b]["threed"]) if outcome == "returned" else (cfgA, resA, xA, yA, zA, HIST_SETS[a]["threed"])
        ds = load_footprints_from_netcdf(arg)
        try:
            _compare_loaded(ds, cfgW, resW, xW, yW, zW, thr, lambda sub, msg: bad("%s-after-%s" % (sub, outcome.split()[0]), "second save %s; the file then holds something else than %s: %s" % (outcome, "the new result set" if outcome == "returned" else "the old one", msg)))
        except Exception as e:  # noqa
            bad("structure", "second save %s; the file cannot be read as %s (%s: %s)" % (outcome, "the new result set" if outcome == "returned" else "the old one", type(e).__name__, str(e)[:100]))
        finally:
            ds.close()
    finally:
        if held is not None:
            held.close()
        shutil.rmtree(outdir, ignore_errors=True)
    return {"v": v[:4], "nt": True, "n": 2, "obs": {"second_save": outcome}}


def case_concurrent_saves(case):
    """two forked workers of one session (the way a pool forks them) save DIFFERENT result sets to DIFFERENT files in one
    directory at the same time - every interleaving of their file-level operations (renames, removals, opens of files in that
    directory) with at most two preemptions.  Afterwards each file holds the set that was saved to it."""
    from bldfm.io import load_footprints_from_netcdf, save_footprints_to_netcdf
    from vf import procsched

    sets = [build(HIST_SETS[k]) for k in case["sets"]]

    def make_workers(wd):
        def mk(k):
            def run():
                cfg, res, x, y, zl = sets[k]
                procsched.point("save-begin")
                save_footprints_to_netcdf(res, cfg, os.path.join(wd, "results_%d.nc" % k))
                procsched.point("save-end")
                return k
            return run
        return [mk(k) for k in range(len(sets))]

    def oracle(wd, trace, results):
        msgs = []
        for k, r in enumerate(results):
            cfg, res, x, y, zl = sets[k]
            path = os.path.join(wd, "results_%d.nc" % k)
            if r is None or r[0] != "ok":
                msgs.append("worker %d: save %s" % (k, "died" if r is None else "raised " + r[1]))
                continue
            try:
                ds = load_footprints_from_netcdf(path)
            except Exception as e:  # noqa
                msgs.append("file %d cannot be loaded after its save returned (%s: %s)" % (k, type(e).__name__, str(e)[:80]))
                continue
            try:
                _compare_loaded(ds, cfg, res, x, y, zl, HIST_SETS[case["sets"][k]]["threed"], lambda sub, msg: msgs.append("file %d [%s] %s" % (k, sub, msg[:160])))
            except Exception as e:  # noqa
                msgs.append("file %d does not have the structure of the set saved to it (%s: %s)" % (k, type(e).__name__, str(e)[:80]))
            finally:
                ds.close()
        stray = [f for f in os.listdir(wd) if not f.startswith("results_")]
        if stray:
            msgs.append("left behind in the output directory: %r" % stray)
        return msgs[:4]

    out = procsched.explore(make_workers, oracle, bound=2, max_executions=5000)
    if out["capped"]:
        raise core.HarnessError("interleaving exploration hit its cap")
    v = [{"sub": "concurrent-saves", "sig": "concurrent-saves", "msg": "two workers saving sets %r to two files of one directory, schedule %s (operations %s): %s" % (case["sets"], "".join(map(str, sched)), [(k, o) for k, o, _ in trace if o != "start"][:16], "; ".join(msgs[:3])), "schedule": sched}
         for sched, trace, msgs in out["violations"][:3]]
    return {"v": v, "nt": out["distinct_traces"] >= 2, "n": out["executions"], "obs": {"executions": out["executions"], "distinct_interleavings": out["distinct_traces"], "steps_per_execution": out["max_steps"]}}


def case_solver(case):
    from bldfm.config_parser import parse_config_dict
    from bldfm.interface import run_bldfm_multitower

    dom = {"nx": 8, "ny": 6, "xmax": 80.0, "ymax": 90.0, "nz": 4, "modes": [8, 6], "ref_lat": 50.0, "ref_lon": 10.0, "halo": 20.0}
    if case["threed"]:
        dom["output_levels"] = [1, 3, 4]
    met = {"ustar": [0.3, 0.4], "mol": [-50.0, 100.0], "wind_dir": [20.0, 250.0], "wind_speed": 3.0} if case["forcing"] == "ustar" else {"z0": 0.05, "mol": -60.0, "wind_dir": [20.0, 250.0], "wind_speed": [3.0, 2.0]}
    cfg = parse_config_dict({"domain": dom, "towers": [{"name": n, "lat": 50.0 + 0.0002 * (k + 1), "lon": 10.0 + 0.0003 * (k + 1), "z_m": z} for k, (n, _, _, z) in enumerate(TOW[:2])], "met": met,
                             "solver": {"footprint": case["footprint"], "precision": case["prec"]}})
    res = run_bldfm_multitower(cfg)
    first = res[cfg.towers[0].name][0]
    X, Y, Z = first["grid"]
    x = X[0, 0, :] if case["threed"] else X[0, :]
    y = Y[0, :, 0] if case["threed"] else Y[:, 0]
    zl = Z[:, 0, 0] if case["threed"] else None
    path = os.path.join(os.getcwd(), "s_%s.nc" % core.case_hash(case))
    try:
        v = verify(cfg, res, np.asarray(x), np.asarray(y), None if zl is None else np.asarray(zl), case["threed"], path, "solver-produced " + core.canon(case))
    finally:
        if os.path.exists(path):
            os.unlink(path)
    return {"v": v[:5], "nt": True, "n": 1}


def run(ctx):
    core.warm_numba()
    ctx.rule = (
        "complete product of the lattice in the module docstring (quick: the non-index value classes only for towers in {1,3} and steps in {1,2}); "
        "plus 16 solver-produced result sets (2-D/3-D x ustar/z0 x footprint/dispersion x precision); one file per case, every element and label compared; all cases distinct and non-trivial"
    )
    ctx.run_cases(case_file, lattice(ctx.tier), sub="synthetic")
    ctx.run_cases(case_relative, HIST_SETS[:3], sub="relative path, working directory changed after import")
    from vf import callerenv
    callerenv.run(ctx, case_file, HIST_SETS[:3])
    depth = 2 if ctx.tier == "quick" else 3
    alphabet = [(p, k) for p in (0, 1) for k in range(len(HIST_SETS))]
    hist = [{"ops": [list(o) for o in h]} for d in range(2, depth + 1) for h in itertools.product(alphabet, repeat=d) if len({o[0] for o in h}) < len(h)]
    ctx.run_cases(case_history, hist, sub="same-path-histories")
    ctx.run_cases(case_held_open, [{"sets": [a_, b_], "hold": h_, "path_form": pf_} for a_, b_ in itertools.permutations(range(len(HIST_SETS)), 2) for h_ in (True, False) for pf_ in ("str", "Path")],
                  sub="save onto a file an earlier load still holds open")
    core.run_forked(ctx, case_concurrent_saves, [{"sets": [0, 1]}, {"sets": [2, 3]}, {"sets": [1, 1]}], sub="two workers saving into one directory (all interleavings, <= 2 preemptions)", nproc=4, timeout=1800)
    sc = [{"threed": a, "forcing": b, "footprint": c, "prec": d} for a, b, c, d in itertools.product((False, True), ("ustar", "z0"), (True, False), ("single", "double"))]
    ctx.run_cases(case_solver, sc, sub="solver-produced", chunksize=1)
