"""C06 - horizontal translation equivariance of sources, towers and centring (halo=0).

 source-shift   S(roll(q, (sj,si))) == roll(S(q), (sj,si)) for ALL ny*nx integer shifts (wrap-around included)
 tower-shift    footprint(m) == roll(footprint(0), m)         for ALL ny*nx on-grid tower cells
 reflection     footprint(m)[s] == D_m[(2m - s) mod n], D_m = response to a unit source at m, for all m, s
 recentre       dispersion with meas_pt=(xm,ym) != 0 == plain output Fourier-shifted by (xm - xmax/2, ym - ymax/2):
                whole-cell roll for even sizes (so out[centre] == plain[tower]), half-cell shift for odd sizes."""

import itertools
import os

import numpy as np

from vf import bigcases
from vf import core
from vf import callforms
from vf import solverlib as sl

PROPERTY = "C06"
LEVEL = "exploration"
MANIFEST = {
    "technique": "bounded-exhaustive enumeration of every integer translation and every on-grid tower cell per configuration; np.roll / Fourier-shift oracle",
    "text": "All nx*ny translations of the source (with wrap-around), all nx*ny tower cells, the complete point-reflection table and every non-zero on-grid measurement point for the re-centring rule are enumerated for each configuration of a lattice of profile sets, non-square grids with dx != dy (even and odd sizes) and mode counts.",
    "note": "halo=0 observes the whole periodic domain; the tower-shift and point-reflection claims are additionally checked with zero-flux halos (default, incommensurate, half-commensurate) on the cropped output, for every tower cell and every source cell whose mirror image lies inside the domain. Tolerance 1e-9 of field maximum. Odd sizes use clamped mode counts (the only accepted combination) and test the half-cell re-centring.",
}


def configs(tier):
    profs = ("const", "most_aniso") if tier == "quick" else sl.PROFILE_SETS
    grids = [sl.GRIDS[0]] if tier == "quick" else list(sl.GRIDS)
    modes = ("full", [4, 4]) if tier == "quick" else ("full", [4, 4], [6, 4], [64, 64])
    grids = list(sl.GRIDS)
    for p, g, m in itertools.product(profs, grids, modes):
        yield {"prof": p, "grid": g[0], "dom": g[1], "modes": m}
    for p_ in sl.AXIS_SETS:
        yield {"prof": p_, "grid": sl.GRIDS[0][0], "dom": sl.GRIDS[0][1], "modes": "full"}
    # odd / odd and mixed parity (even x odd, odd x even)
    odd = list(sl.ODD_GRIDS) if tier == "quick" else list(sl.ODD_GRIDS) + [((5, 7), (75.0, 70.0)), ((7, 6), (70.0, 90.0))]
    for p, g in itertools.product(profs, odd):
        yield {"prof": p, "grid": g[0], "dom": g[1], "modes": [64, 64]}


def case_translate(case):
    S0 = sl.solver()
    seed = int(os.environ.get("VERIF_SEED", "0") or 0)
    nx, ny = case["grid"]
    dom = tuple(case["dom"])
    dx, dy = dom[0] / nx, dom[1] / ny
    z, prof = sl.build_profiles(case["prof"], 4)
    levels = [2, 4]
    modes = sl.resolve_modes(case["modes"], nx, ny, dom, 0.0)
    if (nx % 2 or ny % 2) and (modes[0] <= nx or modes[1] <= ny):
        raise core.HarnessError("odd grid needs clamped modes")
    kw = dict(modes=modes, halo=0.0, precision="double")
    sl.pollute(nx, ny, dx, dy)
    tol = 1e-9
    cnt = [0]

    def S(q, **k):
        cnt[0] += 1
        _, c, f = S0(q, z, prof, dom, levels, **kw, **k)
        return np.stack([np.asarray(c, dtype=float), np.asarray(f, dtype=float)])

    rng = core.case_rng(seed, case)
    q = rng.standard_normal((ny, nx))
    v = []
    worst = [0.0]

    def cmp(label, got, want, what):
        e = sl.relerr(got, want, max(np.abs(want).max(), 1e-300))
        worst[0] = max(worst[0], e)
        if not e <= tol:
            v.append({"sub": label, "sig": label, "msg": "%s: deviation %.2e of field maximum; config %s" % (what, e, core.canon(case))})

    base = S(q)
    fp0 = S(q, meas_pt=(0.0, 0.0), footprint=True)
    cells = list(itertools.product(range(ny), range(nx)))
    for sj, si in cells:
        cmp("source-shift", S(np.roll(q, (sj, si), axis=(0, 1))), np.roll(base, (sj, si), axis=(2, 3)), "source rolled by (%d,%d) cells" % (sj, si))
        fpm = S(q, meas_pt=(si * dx, sj * dy), footprint=True)
        cmp("tower-shift", fpm, np.roll(fp0, (sj, si), axis=(2, 3)), "tower moved to cell (%d,%d)" % (sj, si))
        Dm = S(sl.impulse(ny, nx, sj, si))
        jj = (2 * sj - np.arange(ny)) % ny
        ii = (2 * si - np.arange(nx)) % nx
        cmp("point-reflection", fpm, Dm[:, :, jj][:, :, :, ii], "footprint of tower (%d,%d) vs point reflection of the unit response there" % (sj, si))
        if (sj, si) != (0, 0):
            out = S(q, meas_pt=(si * dx, sj * dy))
            shx, shy = si * dx - dom[0] / 2, sj * dy - dom[1] / 2
            kx = 2 * np.pi * np.fft.fftfreq(nx, d=dx)
            ky = 2 * np.pi * np.fft.fftfreq(ny, d=dy)
            if nx % 2 == 0 and ny % 2 == 0:
                want = np.roll(base, (-(sj - ny // 2), -(si - nx // 2)), axis=(2, 3))
                cmp("recentre", out, want, "dispersion re-centred on cell (%d,%d) vs whole-cell roll" % (sj, si))
                ctr = out[:, :, ny // 2, nx // 2]
                if not np.allclose(ctr, base[:, :, sj, si], rtol=0, atol=tol * np.abs(base).max()):
                    v.append({"sub": "recentre-centre", "sig": "recentre-centre", "msg": "value at the domain centre %s != field value at the tower %s; config %s" % (ctr.ravel()[:2], base[:, :, sj, si].ravel()[:2], core.canon(case))})
            else:
                ph = np.exp(1j * (kx[None, :] * shx + ky[:, None] * shy))
                # even axis: the shift along it is a whole number of cells, the Nyquist phase is real (+-1)
                want = np.fft.ifft2(np.fft.fft2(base, axes=(2, 3)) * ph, axes=(2, 3)).real
                cmp("recentre", out, want, "dispersion re-centred on cell (%d,%d) vs Fourier shift by (%.3g, %.3g) m" % (sj, si, shx, shy))
    return {"v": v[:8], "nt": True, "n": cnt[0], "obs": {"worst_rel_err": worst[0], "shifts": len(cells)}}


def halo_configs(tier):
    profs = ("const", "most_aniso") if tier == "quick" else sl.PROFILE_SETS
    grids = [sl.GRIDS[0], sl.ODD_GRIDS[0]] if tier == "quick" else list(sl.GRIDS) + list(sl.ODD_GRIDS)
    halos = (None, 13.0, 20.0) if tier == "quick" else (None, 13.0, 20.0, 30.0, 45.0, 7.0)
    grids = grids + [((8, 6), (20.0, 45.0))]  # dx = 2.5, dy = 7.5: fractional padded offsets, whole-metre towers
    for p, g in itertools.product(profs, grids):
        odd = g[0][0] % 2 or g[0][1] % 2
        for m in (([64, 64],) if odd else ("full", [4, 4])):
            # all halos in ONE case (one process): identical mode counts, domain and tower offsets recur under different halos
            yield {"prof": p, "grid": g[0], "dom": g[1], "halos": list(halos) + [8.9], "modes": m}


def case_halo(case):
    """with a zero-flux halo (cropped output): the footprint of EVERY on-grid tower cell m, evaluated at every
    source cell s, equals the response at m to a unit source at s displaced ... i.e. footprint_m[s] == D_m[2m - s]
    wherever 2m - s lies inside the returned domain, and == D_(m+t)[..] translated for whole-cell tower moves
    wherever both cells are inside."""
    out = {"v": [], "n": 0, "worst": 0.0, "towers": 0}
    # All footprints of all halos first, ordered by the padded tower offset (xm + px*dx, ym + py*dy): calls that share
    # this derived quantity under DIFFERENT halos (hence different wavenumbers) become neighbours, whatever the size or
    # eviction policy of a memo keyed on it might be.
    nx, ny = case["grid"]
    dom = tuple(case["dom"])
    dx, dy = dom[0] / nx, dom[1] / ny
    jobs = []
    for h in case["halos"]:
        _, _, px, py = sl.padded_size(nx, ny, dom, h)
        for (j, i) in itertools.product(range(ny), range(nx)):
            jobs.append((round((i + px) * dx, 9), round((j + py) * dy, 9), repr(h), h, (j, i)))
    jobs.sort(key=lambda t: t[:3])
    pre = {}
    try:
        for _, _, _, h, m in jobs:
            pre[(repr(h), m)] = _footprint_for(case, h, m)
        for m in itertools.product(range(ny), range(nx)):
            _tower(m, dx, dy)  # final check of every tower row
    except _ArgumentModified as e:
        return {"v": [{"sub": "argument-modified", "sig": "argument-modified/meas_pt", "msg": "%s; config %s" % (e, core.canon(case))}], "nt": True, "n": len(pre)}
    for h in case["halos"]:
        r = _halo_one(dict(case, halo=h), {m: pre[(repr(h), m)] for m in itertools.product(range(ny), range(nx))})
        out["v"] += r["v"]
        out["n"] += r["n"]
        out["worst"] = max(out["worst"], r["obs"]["worst_rel_err"])
        out["towers"] += r["obs"]["towers"]
    return {"v": out["v"][:6], "nt": True, "n": out["n"], "obs": {"worst_rel_err": out["worst"], "towers": out["towers"], "halos": case["halos"]}}


_TOWER_ROWS = {}


def _tower(m, dx, dy):
    x, y = m[1] * dx, m[0] * dy
    if (m[0] + m[1]) % 2 == 0 and float(x).is_integer() and float(y).is_integer():
        return (int(x), int(y))  # whole-metre coordinates written as integers
    if (m[0] + 2 * m[1]) % 3 == 0:
        # a row of the caller's tower table: one float64 array object per tower, reused for every call with that tower
        row = _TOWER_ROWS.setdefault((x, y), np.array([x, y], dtype=float))
        if row[0] != x or row[1] != y:
            raise _ArgumentModified("the solver changed the caller's meas_pt array from (%r, %r) to (%r, %r)" % (x, y, row[0], row[1]))
        return row
    return (x, y)


class _ArgumentModified(Exception):
    pass


def _footprint_for(case, halo, m):
    S0 = sl.solver()
    nx, ny = case["grid"]
    dom = tuple(case["dom"])
    dx, dy = dom[0] / nx, dom[1] / ny
    z, prof = sl.build_profiles(case["prof"], 4)
    modes = sl.resolve_modes(case["modes"], nx, ny, dom, halo)
    _, c, f = S0(np.zeros((ny, nx)), z, prof, dom, [2, 4], modes=modes, halo=halo, precision="double", meas_pt=_tower(m, dx, dy), footprint=True)
    return np.stack([np.asarray(c, dtype=float), np.asarray(f, dtype=float)])


def _halo_one(case, FP=None):
    S0 = sl.solver()
    nx, ny = case["grid"]
    dom = tuple(case["dom"])
    dx, dy = dom[0] / nx, dom[1] / ny
    z, prof = sl.build_profiles(case["prof"], 4)
    levels = [2, 4]
    modes = sl.resolve_modes(case["modes"], nx, ny, dom, case["halo"])
    kw = dict(modes=modes, halo=case["halo"], precision="double")
    tol = 1e-9
    cnt = [0]

    def S(q, **k):
        cnt[0] += 1
        _, c, f = S0(q, z, prof, dom, levels, **kw, **k)
        return np.stack([np.asarray(c, dtype=float), np.asarray(f, dtype=float)])

    v = []
    worst = 0.0
    cells = list(itertools.product(range(ny), range(nx)))
    q0 = np.zeros((ny, nx))
    if FP is None:
        FP = {m: S(q0, meas_pt=_tower(m, dx, dy), footprint=True) for m in cells}
    else:
        cnt[0] += len(FP)
    scale = max(np.abs(FP[cells[0]]).max(), 1e-300)
    for (mj, mi) in cells:
        Dm = S(sl.impulse(ny, nx, mj, mi))
        fpm = FP[(mj, mi)]
        # point reflection about m, restricted to cells whose mirror image lies inside the returned domain
        for (sj, si) in cells:
            rj, ri = 2 * mj - sj, 2 * mi - si
            if 0 <= rj < ny and 0 <= ri < nx:
                e = np.abs(fpm[:, :, sj, si] - Dm[:, :, rj, ri]).max() / scale
                worst = max(worst, e)
                if not e <= tol:
                    v.append({"sub": "point-reflection-halo", "sig": "point-reflection-halo", "msg": "halo=%r: footprint of tower cell (%d,%d) at source cell (%d,%d) is %.6g, the unit response there mirrored about the tower gives %.6g (dev %.2e of max); config %s"
                              % (case["halo"], mj, mi, sj, si, fpm[1, 0, sj, si], Dm[1, 0, rj, ri], e, core.canon(case))})
                    break
        # whole-cell tower move: footprint_(m+t)[s+t] == footprint_m[s] wherever both are inside
        for (tj, ti) in ((0, 1), (1, 0), (1, 2)):
            m2 = (mj + tj, mi + ti)
            if m2 in FP:
                a = FP[m2][:, :, tj:, ti:]
                b = fpm[:, :, : ny - tj, : nx - ti]
                e = np.abs(a - b).max() / scale
                worst = max(worst, e)
                if not e <= tol:
                    v.append({"sub": "tower-shift-halo", "sig": "tower-shift-halo", "msg": "halo=%r: moving the tower from cell (%d,%d) by (%d,%d) cells does not translate the footprint (dev %.2e); config %s" % (case["halo"], mj, mi, tj, ti, e, core.canon(case))})
    if nx % 2 == 0 and ny % 2 == 0:
        # dispersion re-centring under a halo, every on-node tower (its offset from the domain centre is a whole number of
        # cells): the output is the field TRANSLATED ON THE PERIODIC PADDED DOMAIN and then cropped - what moves in over the
        # window edge comes from the halo, not from the opposite edge of the window
        nxe, nye, px, py = sl.padded_size(nx, ny, dom, case["halo"])
        if px or py:
            q = np.random.default_rng(606).random((ny, nx)) + np.linspace(0.0, 2.0, nx)[None, :]
            _, cp, fp_ = S0(np.pad(q, ((py, py), (px, px))), z, prof, (nxe * dx, nye * dy), levels, modes=modes, halo=0.0, precision="double")
            cnt[0] += 1
            Ppad = np.stack([np.asarray(cp, dtype=float), np.asarray(fp_, dtype=float)])
            sc = max(np.abs(Ppad).max(), 1e-300)
            for (mj, mi) in cells:
                if (mj, mi) == (0, 0):
                    continue
                R = S(q, meas_pt=_tower((mj, mi), dx, dy))
                want = np.roll(Ppad, (-(mj - ny // 2), -(mi - nx // 2)), axis=(-2, -1))[..., py:py + ny, px:px + nx]
                e = np.abs(R - want).max() / sc
                worst = max(worst, e)
                if not e <= tol:
                    v.append({"sub": "recentre-halo", "sig": "recentre-halo", "msg": "halo=%r: dispersion output re-centred on tower cell (%d,%d) differs from the padded periodic field translated by (%d,%d) cells and cropped by %.2e of the field maximum; config %s"
                              % (case["halo"], mj, mi, mj - ny // 2, mi - nx // 2, e, core.canon(case))})
                    break
    return {"v": v[:6], "nt": True, "n": cnt[0], "obs": {"worst_rel_err": worst, "towers": len(cells)}}


def long_cases(tier):
    grids = [((256, 6), (1280.0, 60.0))] if tier == "quick" else [((256, 6), (1280.0, 60.0)), ((6, 512), (45.0, 1024.0)), ((8192, 4), (40960.0, 40.0))]
    for g, off, prof in itertools.product(grids, (0.04, 1e-3, 1e-6, 0.5), ("most_aniso", "mostm_s")):
        yield {"grid": g[0], "dom": g[1], "offset_cells": off, "prof": prof}
        if off in (0.04, 0.5):
            # the same with a truncated (even) mode count: the retained spectrum still translates exactly under whole-cell moves
            yield {"grid": g[0], "dom": g[1], "offset_cells": off, "prof": prof, "modes": [g[0][0] // 4 * 2 if g[0][0] > 16 else 4, g[0][1] // 4 * 2 if g[0][1] > 16 else 4]}


def case_long(case):
    """Towers that are NOT on a node (a few hundredths, thousandths or millionths of a cell off one - coordinates such as
    500.005 m - or mid-cell), many cells away from the origin on a long grid: moving such a point by whole cells still
    translates the footprint / the re-centred dispersion output by exactly those cells (every discrete wavenumber's
    phase factor for a whole-cell move is a root of unity, so this is exact for any base point)."""
    S0 = sl.solver()
    nx, ny = case["grid"]
    dom = tuple(case["dom"])
    dx, dy = dom[0] / nx, dom[1] / ny
    z, prof = sl.build_profiles(case["prof"], 4)
    levels = [2, 4]
    kw = dict(modes=tuple(case.get("modes", (nx, ny))), halo=0.0, precision="double")
    off = case["offset_cells"]
    long_x = nx >= ny
    n_long = max(nx, ny)
    base_cell = (3, 1) if long_x else (1, 3)  # (i, j)
    x0, y0 = (base_cell[0] + off) * dx, (base_cell[1] + (off if off == 0.5 else 0.0)) * dy
    if not long_x:
        x0, y0 = (base_cell[0] + (off if off == 0.5 else 0.0)) * dx, (base_cell[1] + off) * dy
    rng = np.random.default_rng(nx * 7 + ny)
    q = rng.standard_normal((ny, nx))
    shifts = [1, 2, n_long // 16 + 1, n_long // 2 - 3, (n_long * 25) // 32, n_long - 8]
    v = []
    worst = 0.0
    n = 0
    for fp in (True, False):
        def S(mp):
            _, c, f = S0(q, z, prof, dom, levels, meas_pt=mp, footprint=fp, **kw)
            return np.stack([np.asarray(c, dtype=float), np.asarray(f, dtype=float)])
        ref = S((x0, y0))
        n += 1
        for k, K in enumerate(shifts):
            Kx, Ky = (K, k % min(nx, ny)) if long_x else (k % min(nx, ny), K)
            got = S((x0 + Kx * dx, y0 + Ky * dy))
            n += 1
            want = np.roll(ref, (Ky, Kx), axis=(2, 3)) if fp else np.roll(ref, (-Ky, -Kx), axis=(2, 3))
            e = sl.relerr(got, want, max(np.abs(want).max(), 1e-300))
            worst = max(worst, e)
            if not e <= 1e-9:
                v.append({"sub": "long-grid", "sig": "long-grid/%s" % ("tower-shift" if fp else "recentre-shift"),
                          "msg": "%s: point (%.9g, %.9g) m (%.3g cells off a node) moved by (%d,%d) whole cells does not translate the output by those cells: deviation %.2e of the field maximum; case %s"
                          % ("footprint" if fp else "dispersion re-centring", x0, y0, off, Kx, Ky, e, core.canon(case))})
    return {"v": v[:4], "nt": True, "n": n, "obs": {"worst_rel_err": float(worst)}}


def case_cache_race(case):
    """tower shift through the result cache while two pool workers store their entries at the same time: the footprint for a
    tower moved by whole cells is the rolled footprint of the first tower - for the workers' answers and for a later session
    served from the directory they left behind"""
    from vf import cacherace

    S0 = sl.solver()
    nx, ny, dom = 8, 6, (80.0, 90.0)
    dx, dy = dom[0] / nx, dom[1] / ny
    z, prof = sl.build_profiles("most_aniso", 4)
    base = dict(srf_flx=np.zeros((ny, nx)), z=z, profiles=prof, domain=dom, levels=[2, 4], modes=(8, 6), halo=0.0, footprint=True, precision="double")
    _, c0, f0 = S0(meas_pt=(0.0, 0.0), **base)  # uncached; C06's translation lattice judges it
    reqs, expect = {}, {}
    for label, (mj, mi) in (("tower(1,2)", (1, 2)), ("tower(4,5)", (4, 5))):
        reqs[label] = dict(base, meas_pt=(mi * dx, mj * dy))
        expect[label] = (np.roll(np.asarray(c0), (mj, mi), axis=(1, 2)), np.roll(np.asarray(f0), (mj, mi), axis=(1, 2)))
    return cacherace.solver_pair(reqs, expect, 1e-9, "footprints of two towers that differ by whole cells")


def run(ctx):
    os.environ["VERIF_SEED"] = str(ctx.seed)
    core.warm_numba()
    ctx.rule = (
        "per configuration of the lattice (profile sets x even grids x mode counts, plus odd grids with clamped modes) ALL ny*nx integer shifts / tower cells: "
        "4 identities each (source shift, tower shift, point reflection, re-centring); configurations are distinct lattice points; evaluations counts solver executions"
    )
    callforms.run_solver_forms(ctx)
    ctx.run_cases(case_translate, configs(ctx.tier), sub="translation", chunksize=1)
    ctx.run_cases(case_halo, halo_configs(ctx.tier), sub="halo-cropped", chunksize=1)
    ctx.run_cases(case_long, long_cases(ctx.tier), sub="off-node points on long grids", chunksize=1)
    core.run_forked(ctx, case_cache_race, [{"pair": "shifted-towers"}], sub="tower shift through a cache two workers write at once (all interleavings, <= 2 preemptions)", nproc=4, timeout=1800)
    bigcases.run(ctx, "C06")
