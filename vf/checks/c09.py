"""C09 - closure profiles are self-consistent with similarity theory and the grid.

Lattice: closures {MOST, MOSTM, CONSTANT, OAAHOC} x zm {1.5, 5, 10, 50} x layers n {1, 2, 3, 8, 33}
x wind vectors (four quadrants and axis-aligned) x ustar {0.1, 0.4, 0.9} x L {-5, -100, -1e4, 1e9,
1e4, 100, 10} x Prandtl {0.7, 1}, filtered to physically consistent cases (derived z0 < zm/5);
for every ustar-driven case its z0-driven twin.  No solver involved.
Checks: grid finite, strictly increasing, z[0] = z0 (own similarity formula), z[n] = zm, top >= 2 zm;
(u,v)[n] = input wind; wind direction at every node with non-zero speed equals the input direction;
Kz > 0, Kx, Ky >= 0, all equal to the similarity formula (own phi_c); z0 -> ustar -> z0 round trip
returns the same grid and profiles; psi = integral of (phi_m - 1)/x (scipy.quad); psi(0+-) = 0,
phi(0+-) = 1; psi, phi equal the Kormann-Meixner module's copies."""

import itertools
import math
import warnings

import numpy as np

from vf import bigcases
from vf import core
from vf.oracles import most

PROPERTY = "C09"
LEVEL = "exploration"
MANIFEST = {
    "technique": "bounded-exhaustive enumeration of the closure x height x layers x wind x ustar x stability x Prandtl lattice (physically consistent points) against independent similarity formulas and quadrature",
    "text": "Every physically consistent point of the lattice is generated through the public profile generator and compared with independently written similarity functions: grid anchoring (z0, measurement height at index n, top), wind vector at the measurement height, direction at every node, diffusivity formula per closure, and the roughness-length / friction-velocity round trip; the stability functions are checked against adaptive quadrature, for continuity at neutral and against the reference model's copies on a logarithmic lattice of both signs.",
    "note": "Known finding D9 (listed in known_findings.json): for L < 0 the similarity wind speed at the roughness node is (u*/kappa) psi(z0/L) < 0, i.e. the direction at node 0 is opposite to the input wind for closures MOST/MOSTM. Only that signature is suppressed. MOSTM has Kx or Ky = 0 for axis-aligned wind by construction, so 'strictly positive' is demanded of Kz and 'non-negative and equal to the formula' of Kx, Ky.",
}

WINDS = [(3.0, 0.0), (0.0, -2.0), (1.0, 1.0), (-4.0, 0.5), (-1.5, -2.5), (2.0, -3.0)]
CM, CL, CH = 0.0856, 0.845, 0.204
TKE = 0.8


GEOMS = ((None, None), (1.0, None), (10.0, None), (3.0, 1.0), (None, 0.5), (20.0, 4.0), (1.5, None), (5.0, 1.5), (100.0, 0.25), (2.0, 2.0))  # (1.0, None): the domain ends AT the measurement height - node count repaired by fix e4ee32f (D12)


def lattice(tier):
    gi = -1
    zms = (1.5, 5.0, 10.0, 50.0)
    ns = (1, 2, 3, 8, 33) if tier == "quick" else (1, 2, 3, 4, 8, 16, 33, 100)
    winds = WINDS[:4] if tier == "quick" else WINDS
    for clo, zm, n, w, us, L, pr in itertools.product(("MOST", "MOSTM", "CONSTANT", "OAAHOC"), zms, ns, winds, (0.1, 0.4, 0.9), (-5.0, -100.0, -1e4, 1e9, 1e4, 100.0, 10.0), (1.0, 0.7)):
        if clo == "OAAHOC" and (pr != 1.0 or L != 1e9):
            continue  # OAAHOC ignores stability and Prandtl number
        sp = math.hypot(*w)
        if clo == "OAAHOC":
            z0 = zm * math.exp(-CM * CL * sp * math.sqrt(TKE) / us**2)
        else:
            z0 = most.z0_from_ustar(zm, sp, us, L)
        if not (1e-5 <= z0 < zm / 5):  # physically meaningful roughness lengths (1e-5 m: smooth ice)
            continue
        # column geometry: (domain height, stretching length) in units of the measurement height, cycling through the
        # alphabet so that every pair meets every closure / stability / layer count
        gi = (gi + 1) % len(GEOMS)
        yield {"closure": clo, "zm": zm, "n": n, "wind": list(w), "ustar": us, "mol": L, "prsc": pr, "geom": list(GEOMS[gi])}


def _chunks(it, k):
    buf = []
    for x in it:
        buf.append(x)
        if len(buf) == k:
            yield buf
            buf = []
    if buf:
        yield buf


def case_profiles(chunk):
    from bldfm.pbl_model import vertical_profiles

    v = []
    nt = 0
    for case in chunk:
        clo, zm, n, (um, vm), us, L, pr = case["closure"], case["zm"], case["n"], case["wind"], case["ustar"], case["mol"], case["prsc"]
        sp = math.hypot(um, vm)
        lab = core.canon(case)
        kw = dict(tke=TKE) if clo == "OAAHOC" else {}
        # the wind is handed over as tuple, list or float64 ndarray (cycling); an array must come back untouched
        wform = (n + int(zm)) % 3
        warg = (um, vm) if wform == 0 else ([um, vm] if wform == 1 else np.array([um, vm], dtype=float))
        with warnings.catch_warnings():
            warnings.simplefilter("ignore")
            dhf, stf = case.get("geom", (None, None))
            if dhf is not None:
                kw["domain_height"] = dhf * zm
            if stf is not None:
                kw["stretch"] = stf * zm
            z, (u, vv, Kx, Ky, Kz) = vertical_profiles(n, zm, warg, ustar=us, mol=L, prsc=pr, closure=clo, **kw)
        if wform and (float(warg[0]) != um or float(warg[1]) != vm):
            v.append({"sub": "input-modified", "sig": "input-modified/wind", "msg": "vertical_profiles changed the caller's wind %s from (%g, %g) to (%r, %r); case %s" % (type(warg).__name__, um, vm, warg[0], warg[1], core.canon(case))})
        z, u, vv, Kx, Ky, Kz = (np.asarray(a, dtype=float).ravel() if np.ndim(a) else a for a in (z, u, vv, Kx, Ky, Kz))
        nt += 1
        z0 = zm * math.exp(-CM * CL * sp * math.sqrt(TKE) / us**2) if clo == "OAAHOC" else most.z0_from_ustar(zm, sp, us, L)

        def bad(sub, msg, sig=None):
            v.append({"sub": sub, "sig": sig or sub, "msg": "%s; case %s" % (msg, lab)})

        if not (np.all(np.isfinite(z)) and np.all(np.diff(z) > 0)):
            bad("grid", "vertical grid is not finite and strictly increasing: %r" % z[:5])
            continue
        if abs(z[0] - z0) > 1e-10 * z0 + 1e-13 * zm:  # the grid map loses ~1e-16*zm absolutely for tiny z0
            bad("grid-z0", "grid starts at %.12g, roughness length is %.12g" % (z[0], z0))
        if len(z) <= n or abs(z[n] - zm) > 1e-10 * zm:
            bad("grid-zm", "z[n=%d] = %r, measurement height %g" % (n, z[n] if len(z) > n else None, zm))
            continue
        top = kw.get("domain_height", 2 * zm)
        if z[-1] < top * (1 - 1e-12):
            bad("grid-top", "top node %.6g is below the domain height %g" % (z[-1], top))
        if abs(u[n] - um) > 1e-9 * sp or abs(vv[n] - vm) > 1e-9 * sp:
            bad("wind-at-zm", "wind at the measurement height is (%.9g, %.9g), supplied (%g, %g)" % (u[n], vv[n], um, vm))
        # direction at every node with non-zero speed
        spd = np.hypot(u, vv)
        for i in range(len(z)):
            noise = (us / most.KAPPA if clo != "OAAHOC" else us**2 / (CM * CL * math.sqrt(TKE))) * (1e-13 * zm / z0 + 1e-10)
            if spd[i] <= noise or not np.isfinite(spd[i]):  # rounding-level speed (log(z[0]/z0) is pure rounding): direction undefined
                if not np.isfinite(spd[i]):
                    bad("wind-finite", "wind at node %d is not finite" % i)
                continue
            du, dv = u[i] / spd[i] - um / sp, vv[i] / spd[i] - vm / sp
            if math.hypot(du, dv) > 1e-8:
                if i == 0 and L < 0 and clo in ("MOST", "MOSTM") and math.hypot(u[i] / spd[i] + um / sp, vv[i] / spd[i] + vm / sp) < 1e-8:
                    bad("direction", "wind at the roughness node is (%.3g, %.3g): opposite to the input wind (%g, %g) because psi(z0/L) < 0" % (u[i], vv[i], um, vm), "direction/node0-reversed/unstable")
                else:
                    bad("direction", "wind direction at node %d (z=%.4g) is (%.6f, %.6f), input direction (%.6f, %.6f)" % (i, z[i], u[i] / spd[i], vv[i] / spd[i], um / sp, vm / sp), "direction/node%s" % ("0" if i == 0 else "k"))
                break
        # diffusivities
        if clo == "CONSTANT":
            Kw = most.KAPPA * us * zm / pr * np.ones(len(z))
        elif clo == "OAAHOC":
            Kw = CH * CL * z * math.sqrt(TKE)
        else:
            Kw = most.K(z, us, L, pr)
        Kxw, Kyw = (Kw * vm**2 / sp**2, Kw * um**2 / sp**2) if clo == "MOSTM" else (Kw, Kw)
        for nm, a, b in (("Kx", Kx, Kxw), ("Ky", Ky, Kyw), ("Kz", Kz, Kw)):
            a = np.asarray(a, dtype=float) * np.ones(len(z))
            if not np.allclose(a, b, rtol=1e-9, atol=1e-14):
                bad("K-formula", "%s differs from the similarity formula by up to %.2e (relative)" % (nm, np.max(np.abs(a - b) / np.maximum(np.abs(b), 1e-300))), "K-formula/%s" % clo)
        if not (np.all(np.asarray(Kz) > 0) and np.all(np.asarray(Kx) >= 0) and np.all(np.asarray(Ky) >= 0)):
            bad("K-positive", "diffusivities are not positive")
        # round trip z0 -> ustar -> profiles
        if clo != "OAAHOC":
            with warnings.catch_warnings():
                warnings.simplefilter("ignore")
                z2, p2 = vertical_profiles(n, zm, (um, vm), z0=float(z[0]), mol=L, prsc=pr, closure=clo, **{k_: v_ for k_, v_ in kw.items() if k_ != "tke"})
            nt += 1
            if len(z2) != len(z) or not np.allclose(z2, z, rtol=1e-10, atol=0):
                bad("roundtrip", "z0-driven twin has a different grid (len %d vs %d)" % (len(z2), len(z)), "roundtrip/grid")
            else:
                for nm, a, b in zip(("u", "v", "Kx", "Ky", "Kz"), p2, (u, vv, Kx, Ky, Kz)):
                    sc = max(np.max(np.abs(b)), 1e-300)
                    if np.max(np.abs(np.asarray(a) - b)) > 1e-9 * sc:
                        bad("roundtrip", "z0-driven twin: %s differs by %.2e of its maximum" % (nm, np.max(np.abs(np.asarray(a) - b)) / sc), "roundtrip/%s" % nm)
    return {"v": v[:8], "nt": nt, "key": core.case_hash(chunk), "n": nt, "obs": {"profiles_generated": nt}}


def case_functions(case):
    from bldfm.ffm_kormann_meixner import _phiC, _phiM, _psiM
    from bldfm.pbl_model import phi, psi

    v = []
    xs = np.concatenate([-np.logspace(-8, 1.3, 60), np.logspace(-8, 1.3, 60)])
    n = 0
    for x in xs:
        n += 1
        p, f = float(psi(x)), float(phi(x))
        pw, fw = float(most.Psi(x)), float(most.phi_c(x))
        if abs(p - pw) > 1e-10 * max(1.0, abs(pw)):
            v.append({"sub": "psi", "sig": "psi/%s" % ("stable" if x > 0 else "unstable"), "msg": "psi(%g) = %.12g, similarity form gives %.12g" % (x, p, pw)})
        if abs(f - fw) > 1e-10 * max(1.0, abs(fw)):
            v.append({"sub": "phi", "sig": "phi/%s" % ("stable" if x > 0 else "unstable"), "msg": "phi(%g) = %.12g, similarity form gives %.12g" % (x, f, fw)})
        zz, LL = np.array([abs(x) * 10.0]), np.array([math.copysign(10.0, x)])
        pk, fk = float(_psiM(zz, LL)[0]), float(_phiC(zz, LL)[0])
        if abs(p - pk) > 1e-10 * max(1.0, abs(p)) or abs(f - fk) > 1e-10 * max(1.0, abs(f)):
            v.append({"sub": "reference-copies", "sig": "reference-copies", "msg": "x=%g: psi/phi of the profile module (%.10g, %.10g) differ from the reference model's copies (%.10g, %.10g)" % (x, p, f, pk, fk)})
    # the reference model's copies must agree for integer-typed heights / lengths as well
    for zi, Li, dt in itertools.product((2, 10, 30), (-20, -500, 30, 200), (int, np.int64, np.int32, float)):
        n += 1
        zz, LL = np.array([zi], dtype=dt), np.array([Li], dtype=dt)
        x = zi / Li
        pk, fk, mk = float(_psiM(zz, LL)[0]), float(_phiC(zz, LL)[0]), float(_phiM(zz, LL)[0])
        if abs(pk - float(psi(x))) > 1e-10 * max(1, abs(pk)) or abs(fk - float(phi(x))) > 1e-10 * max(1, abs(fk)) or abs(mk - float(most.phi_m(x))) > 1e-10:
            v.append({"sub": "reference-copies", "sig": "reference-copies/%s" % ("integer" if dt is not float else "float"),
                      "msg": "z=%d, L=%d given as %s arrays: the reference model's psi/phi_c/phi_m copies give (%.10g, %.10g, %.10g), the profile module's functions (%.10g, %.10g, %.10g)" % (zi, Li, np.dtype(dt).name, pk, fk, mk, float(psi(x)), float(phi(x)), float(most.phi_m(x)))})
    for x in (-20.0, -3.0, -0.5, -1e-3, 1e-3, 0.7, 4.0, 20.0):
        n += 1
        q = most.Psi_quad(x)
        # integrand from the LIBRARY's phi_m copy, integral vs the LIBRARY's psi
        from scipy.integrate import quad

        ql, _ = quad(lambda t: (float(_phiM(np.array([abs(t)]), np.array([math.copysign(1.0, t)]))[0]) - 1.0) / t, 0.0, x, epsabs=1e-13, epsrel=1e-12, limit=200)
        p = float(psi(x))
        if abs(p - q) > 1e-8 * max(1.0, abs(q)) or abs(p - ql) > 1e-8 * max(1.0, abs(ql)):
            v.append({"sub": "psi-integral", "sig": "psi-integral/%s" % ("stable" if x > 0 else "unstable"), "msg": "psi(%g) = %.10g but the integral of (phi_m-1)/x is %.10g (own phi_m) / %.10g (library phi_m)" % (x, p, q, ql)})
    for x in (0.0, 1e-14, -1e-14):
        if abs(float(psi(x))) > 1e-10 or abs(float(phi(x)) - 1) > 1e-10:
            v.append({"sub": "neutral-limit", "sig": "neutral-limit", "msg": "psi(%g)=%g, phi(%g)=%g at neutral stratification" % (x, float(psi(x)), x, float(phi(x)))})
    return {"v": v[:8], "nt": n, "n": n, "obs": {"points": n}}


HIST_OPS = [
    {"n": 4, "zm": 5.0, "wind": [3.0, 1.0], "ustar": 0.4, "mol": -50.0, "closure": "MOST"},
    {"n": 4, "zm": 5.0, "wind": [3.0, 1.0], "ustar": 0.3, "mol": 80.0, "closure": "MOSTM"},
    {"n": 4, "zm": 5.0, "wind": [-2.0, 2.5], "z0": 0.05, "mol": -50.0, "closure": "MOST"},
    {"n": 8, "zm": 10.0, "wind": [3.0, 1.0], "ustar": 0.4, "mol": 1e9, "closure": "CONSTANT", "prsc": 0.7},
    {"n": 4, "zm": 5.0, "wind": [3.0, 1.0], "ustar": 0.4, "mol": 1e9, "closure": "OAAHOC", "tke": 0.8},
    {"n": 4, "zm": 5.0, "wind": [3.0, 1.0], "ustar": 0.4, "mol": -50.0, "closure": "MOST", "domain_height": 30.0, "stretch": 20.0},
    {"n": 3, "zm": 2.0, "wind": [0.0, -4.0], "z0": 0.2, "mol": 25.0, "closure": "MOSTM"},
    # twins of op 0 that differ in exactly one argument
    {"n": 4, "zm": 5.0, "wind": [3.0, 1.0], "ustar": 0.4, "mol": -50.0, "closure": "MOST", "prsc": 0.7},
    {"n": 4, "zm": 5.0, "wind": [1.0, 3.0], "ustar": 0.4, "mol": -50.0, "closure": "MOST"},
    {"n": 5, "zm": 5.0, "wind": [3.0, 1.0], "ustar": 0.4, "mol": -50.0, "closure": "MOST"},
]


def hist_op(i):
    from bldfm.pbl_model import vertical_profiles

    kw = dict(HIST_OPS[i])
    n, zm, wind = kw.pop("n"), kw.pop("zm"), tuple(kw.pop("wind"))
    with warnings.catch_warnings():
        warnings.simplefilter("ignore")
        z, prof = vertical_profiles(n, zm, wind, **kw)
    return (np.asarray(z), tuple(np.asarray(p) for p in prof))


VP_ORDER = ("n", "meas_height", "wind", "ustar", "z0", "mol", "prsc", "closure", "domain_height", "stretch", "z0_min", "z0_max", "tke")
VP_DEFAULTS = {"ustar": None, "z0": None, "mol": 1e9, "prsc": 1.0, "closure": "MOST", "domain_height": None, "stretch": None, "z0_min": 0.001, "z0_max": 2.0, "tke": None}


def case_call_forms(case):
    """the same profile request written positionally in the released argument order, with the defaults written out, with
    list / ndarray / numpy-scalar / integer arguments: all forms return what the keyword call returns (which the lattice
    above judges), and the documented grid contract is re-checked on the positional form (starts at z0, z[n] = zm, reaches
    the requested domain height)"""
    from bldfm.pbl_model import vertical_profiles

    kw = dict(case["kw"])
    kw["wind"] = tuple(kw["wind"])
    full = dict(VP_DEFAULTS)
    full.update(kw)
    ref = vertical_profiles(**kw)
    forms = [("all-positional", [full[k] for k in VP_ORDER], {}),
             ("defaults-written-out", [], dict(full)),
             ("ten-positional", [full[k] for k in VP_ORDER[:10]], {k: full[k] for k in VP_ORDER[10:]}),
             ("three-positional", [full[k] for k in VP_ORDER[:3]], {k: v for k, v in kw.items() if k not in VP_ORDER[:3]}),
             ("wind-list", [], dict(kw, wind=list(kw["wind"]))),
             ("wind-ndarray", [], dict(kw, wind=np.array(kw["wind"], dtype=float))),
             ("numpy-scalars", [], {k: (np.float64(v) if isinstance(v, float) else (np.int64(v) if isinstance(v, int) and not isinstance(v, bool) else v)) for k, v in kw.items()})]
    if float(kw["meas_height"]).is_integer():
        forms.append(("integer-height", [], dict(kw, meas_height=int(kw["meas_height"]))))
    v = []
    lab = core.canon(case)

    def flat(r):
        return [np.asarray(r[0], dtype=float)] + [np.asarray(p, dtype=float) for p in r[1]]

    R = flat(ref)
    for name, a, k in forms:
        try:
            got = flat(vertical_profiles(*a, **k))
        except Exception as e:  # noqa
            v.append({"sub": "call-forms", "sig": "call-forms/refused/%s" % name, "msg": "request written as %s raises %s: %s; %s" % (name, type(e).__name__, str(e)[:100], lab)})
            continue
        if len(got[0]) != len(R[0]) or any(not np.allclose(x, y, rtol=1e-12, atol=1e-14, equal_nan=True) for x, y in zip(got, R)):
            v.append({"sub": "call-forms", "sig": "call-forms/%s" % name, "msg": "request written as %s: %d nodes up to %.4g m, the keyword call gives %d nodes up to %.4g m; %s" % (name, len(got[0]), got[0][-1], len(R[0]), R[0][-1], lab)})
    dh = kw.get("domain_height")
    if dh is not None and not R[0][-1] >= dh * (1 - 1e-12):
        v.append({"sub": "call-forms", "sig": "call-forms/domain-height", "msg": "keyword call: the grid ends at %.4g m below the requested domain height %g; %s" % (R[0][-1], dh, lab)})
    return {"v": v[:4], "nt": True, "n": len(forms) + 1}


def form_cases():
    for clo, forcing, geom in itertools.product(("MOST", "MOSTM", "CONSTANT", "OAAHOC"), ("ustar", "z0"), ((None, None), (50.0, 15.0), (30.0, None), (None, 12.0))):
        if clo == "OAAHOC" and forcing == "z0":
            continue
        kw = {"n": 6, "meas_height": 10.0, "wind": [3.0, -1.5], "mol": -80.0 if clo != "CONSTANT" else 1e9, "closure": clo}
        kw.update({"ustar": 0.35} if forcing == "ustar" else {"z0": 0.07})
        if geom[0] is not None:
            kw["domain_height"] = geom[0]
        if geom[1] is not None:
            kw["stretch"] = geom[1]
        if clo == "OAAHOC":
            kw["tke"] = 0.8
        yield {"kw": kw}


def run(ctx):
    cases = list(lattice(ctx.tier))
    ctx.rule = (
        "complete product of the lattice in the module docstring filtered to 1e-5 m <= z0 < zm/5 (%d ustar-driven profile sets, each with its z0-driven twin except OAAHOC), in chunks of 64; "
        "stability functions on 120 logarithmically spaced arguments of both signs + 8 quadrature points + neutral limits; every generated profile set is a distinct non-trivial case; evaluations counts profile generations"
        % len(cases)
    )
    res = ctx.run_cases(case_profiles, list(_chunks(cases, 64)), sub="profiles", chunksize=1)
    from vf import callerenv
    callerenv.run(ctx, case_profiles, [cases[k::97][:48] for k in (0, 1)])
    ctx.run_cases(case_functions, [{"functions": "psi,phi"}], sub="stability-functions", serial=True)
    ctx.run_cases(case_call_forms, form_cases(), sub="the same request in other call forms")
    ctx.cov["lattice_points_physically_consistent"] = len(cases)
    from vf import histories

    histories.run(ctx, __name__, 2 if ctx.tier == "quick" else 3)
    bigcases.run(ctx, "C09")
