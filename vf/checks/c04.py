"""C04 - concentration and flux are linear in (surface flux, background).

Per configuration (profiles x grid x halo x modes x numeric/analytic x precision):
 superposition  S(sum_s q[s] delta_s, bg) == sum_s q[s] S(delta_s, 0) + bg  over the COMPLETE impulse basis
 homogeneity    S(a q, a c) == a S(q, c)  for a in {1.7, -0.3, 0, 1e4, 1e-5}   (amplitudes over nine decades)
 additivity     S(a q1 + b q2, a c1 + b c2) == a S(q1,c1) + b S(q2,c2) for all ordered pairs of the seeded fields
 background     flux(q, c) == flux(q, 0);  conc(q, c) - conc(q, 0) == c  uniformly
 footprint      output bit-identical for source arrays {zeros, random, NaN, inf, huge} of the same shape."""

import itertools
import os

import numpy as np

from vf import bigcases
from vf import core
from vf import callforms
from vf import errorpaths
from vf import solverlib as sl

PROPERTY = "C04"
LEVEL = "exploration"
MANIFEST = {
    "technique": "bounded-exhaustive enumeration: superposition over the complete impulse basis, all ordered field pairs x scalar lattice x background lattice, per point of the configuration lattice; algebraic oracle",
    "text": "Linearity is decided on the complete impulse basis (superposition of all nx*ny unit responses reproduces the response to a dense field), on a scalar lattice spanning nine decades (so amplitude-dependent shortcuts show), on all ordered pairs of three seeded sign-changing fields and on a background lattice, for numeric and analytic mode, several halos, mode counts, level sets and both precisions. Footprint mode must be bit-identical across source-array contents.",
    "note": "Tolerance 1e-9 of the field maximum in double, 2e-5 in single precision; bit-identity only for the footprint-ignores-values claim (same call, same process).",
}

SCALARS = (1.7, -0.3, 0.0, 1e4, 1e-5, 1e-10, 3e-13, 1e12)  # incl. trace-gas units (every cell far below 1e-8)


def configs(tier):
    if tier == "quick":
        lat = itertools.product(("const", "most_aniso"), sl.GRIDS[:1], (0.0, 13.0, None), ("full", [4, 4]), (False, True), ("double",))
    else:
        lat = itertools.product(sl.PROFILE_SETS, sl.GRIDS, (0.0, 13.0, None, 30.0), ("full", [4, 4], [64, 64]), (False, True), ("double", "single"))
    for p, g, h, m, an, pr in lat:
        if an and not p.startswith("const"):
            continue
        yield {"prof": p, "grid": g[0], "dom": g[1], "halo": h, "modes": m, "analytic": an, "prec": pr}
    if tier == "quick":
        for p, h, an in (("const", 13.0, False), ("const", None, True), ("most_aniso", 0.0, False), ("mostm_s", 20.0, False)):
            yield {"prof": p, "grid": sl.GRIDS[0][0], "dom": sl.GRIDS[0][1], "halo": h, "modes": "full", "analytic": an, "prec": "single"}
    for p_, h in itertools.product(sl.AXIS_SETS, (0.0, 13.0)):
        yield {"prof": p_, "grid": sl.GRIDS[0][0], "dom": sl.GRIDS[0][1], "halo": h, "modes": "full", "analytic": False, "prec": "double"}
    for k, (g, h) in enumerate(itertools.product(sl.ODD_GRIDS, (0.0, 13.0))):
        yield {"prof": ("const", "most_aniso")[k % 2], "grid": g[0], "dom": g[1], "halo": h, "modes": [64, 64], "analytic": False, "prec": "double"}


def case_linear(case):
    S0 = sl.solver()
    seed = int(os.environ.get("VERIF_SEED", "0") or 0)
    nx, ny = case["grid"]
    dom = tuple(case["dom"])
    z, prof = sl.build_profiles(case["prof"], 4)
    levels = [1, 4, len(z) - 1]
    modes = sl.resolve_modes(case["modes"], nx, ny, dom, case["halo"])
    prec = case["prec"]
    sl.pollute(*sl.padded_size(nx, ny, dom, case["halo"])[:2], dom[0] / nx, dom[1] / ny)
    tol = 1e-9 if prec == "double" else 2e-5
    kw = dict(modes=modes, halo=case["halo"], precision=prec, analytic=case["analytic"])
    cnt = [0]

    def S(q, bg=0.0):
        cnt[0] += 1
        _, c, f = S0(q, z, prof, dom, levels, srf_bg_conc=bg, **kw)
        return np.stack([np.asarray(c, dtype=float), np.asarray(f, dtype=float)])

    rng = core.case_rng(seed, case)
    fl = sl.fields(rng, ny, nx)
    v = []
    worst = [0.0]

    def cmp(label, got, want, what, extra_scale=0.0):
        scale = max(np.abs(want).max(), extra_scale, 1e-300)
        e = sl.relerr(got, want, scale)
        worst[0] = max(worst[0], e)
        if not e <= tol:
            v.append({"sub": label, "sig": "%s/%s" % (label, "analytic" if case["analytic"] else "numeric"),
                      "msg": "%s: max deviation %.2e of field maximum (tol %.0e); config %s" % (what, e, tol, core.canon(case))})

    # superposition over the whole basis
    basis = np.zeros((ny * nx, 2, len(levels), ny, nx))
    for s, (j, i) in enumerate(itertools.product(range(ny), range(nx))):
        basis[s] = S(sl.impulse(ny, nx, j, i))
    q = fl["random"]
    bg = 2.5
    want = np.tensordot(q.ravel(), basis, axes=(0, 0))
    want[0] += bg
    cmp("superposition", S(q, bg), want, "response to a dense field vs. superposition of all %d unit responses + background" % (nx * ny), abs(bg))
    # homogeneity, additivity
    names = list(fl)
    R = {n: S(fl[n], c) for n, c in zip(names, (0.0, 2.5, -4.0))}
    C = dict(zip(names, (0.0, 2.5, -4.0)))
    for n in names:
        for a in SCALARS:
            cmp("homogeneity", S(a * fl[n], a * C[n]), a * R[n], "S(%g*%s, %g*%g) vs %g*S(%s, %g)" % (a, n, a, C[n], a, n, C[n]),
                extra_scale=abs(a) * max(np.abs(R[n]).max(), 1e-300) * 1.0)
    for n1, n2 in itertools.permutations(names, 2):
        for a, b in ((1.7, -0.3), (-0.3, 1e4), (1.0, 1.0)):
            want = a * R[n1] + b * R[n2]
            sc = abs(a) * np.abs(R[n1]).max() + abs(b) * np.abs(R[n2]).max()
            cmp("additivity", S(a * fl[n1] + b * fl[n2], a * C[n1] + b * C[n2]), want, "S(%g*%s%+g*%s) vs combination" % (a, n1, b, n2), extra_scale=sc)
    # sources whose sum is EXACTLY zero (nothing emitted on balance, or nothing at all) still carry the background at every level
    dip = np.zeros((ny, nx))
    dip[1, 2], dip[ny - 2, nx - 3] = 1.5, -1.5
    for zname, zq in (("all-zero", np.zeros((ny, nx))), ("dipole", dip)):
        base0 = S(zq, 0.0)
        for c in (2.5, -4.0):
            r = S(zq, c)
            cmp("background-zero-sum", r[0] - base0[0], np.full_like(base0[0], c), "conc(bg=%g)-conc(bg=0) for the %s source vs uniform offset" % (c, zname), extra_scale=abs(c))
            cmp("background-zero-sum", r[1], base0[1], "flux of the %s source with background %g vs without" % (zname, c), extra_scale=max(np.abs(base0[1]).max(), 1e-30))
    # one preallocated source map refilled in place: f(2q) must still be 2 f(q)
    buf = fl["random"].copy()
    r1 = S(buf, 0.0)
    buf *= 2.0
    cmp("in-place-reuse", S(buf, 0.0), 2.0 * r1, "same ndarray refilled in place with 2q vs 2*S(q)")
    buf[...] = fl["smooth"]
    cmp("in-place-reuse", S(buf, 2.5), R["smooth"] if C["smooth"] == 2.5 else S(fl["smooth"].copy(), 2.5), "same ndarray refilled in place with another field")
    # background: uniform offset, flux untouched
    for n in names:
        base = S(fl[n], 0.0)
        for c in (2.5, -4.0, 1e3):
            r = S(fl[n], c)
            cmp("background-flux", r[1], base[1], "flux with background %g vs without (%s)" % (c, n))
            cmp("background-offset", r[0] - base[0], np.full_like(base[0], c), "conc(bg=%g)-conc(bg=0) vs uniform offset (%s)" % (c, n), extra_scale=np.abs(base[0]).max())
    # footprint mode ignores source values
    ref = None
    fills = {"zeros": np.zeros((ny, nx)), "random": fl["random"], "nan": np.full((ny, nx), np.nan), "inf": np.full((ny, nx), np.inf), "huge": np.full((ny, nx), 1e300)}
    for fname, arr in fills.items():
        cnt[0] += 1
        _, c, f = S0(arr, z, prof, dom, levels, meas_pt=(20.0, 30.0), footprint=True, **kw)
        cur = (np.asarray(c).tobytes(), np.asarray(f).tobytes())
        if ref is None:
            ref = cur
        elif cur != ref:
            v.append({"sub": "footprint-ignores-source", "sig": "footprint-ignores-source/%s" % fname,
                      "msg": "footprint output for a %s-filled source array differs from the zeros-filled one (should be bit-identical); config %s" % (fname, core.canon(case))})
    return {"v": v[:8], "nt": True, "n": cnt[0], "obs": {"worst_rel_err": worst[0]}}


def repr_cases(tier):
    for p, h, fp, an in itertools.product(("const", "most_aniso"), (0.0, 13.0), (False, True), (False, True)):
        if an and p != "const":
            continue
        yield {"prof": p, "halo": h, "footprint": fp, "analytic": an}


def case_representation(case):
    """The same float64 surface-flux field in another memory layout (Fortran order, strided view, read-only) gives the
    same fields; in footprint mode arrays of any dtype do (values must not matter)."""
    S0 = sl.solver()
    nx, ny, dom = 8, 6, (80.0, 90.0)
    z, prof = sl.build_profiles(case["prof"], 4)
    # values exactly representable in float32, so that a float32 copy carries the same numbers
    z = np.round(z * 64) / 64
    prof = tuple(np.round(p * 64) / 64 + (0.0 if k < 2 else 1.0 / 64) for k, p in enumerate(prof))
    q = (np.arange(ny * nx).reshape(ny, nx) % 7 - 2).astype(float)  # small integers, sign-changing
    levels = [1, 4]
    base_kw = dict(z=z, profiles=prof, domain=dom, levels=levels, modes=(8, 6), meas_pt=(20.0, 30.0) if case["footprint"] else (0.0, 0.0), srf_bg_conc=2.0,
                   footprint=case["footprint"], analytic=case["analytic"], halo=case["halo"], precision="double")
    _, c0, f0 = S0(q, **base_kw)
    ref = np.stack([c0, f0])
    sc = max(np.abs(ref).max(), 1e-300)
    v = []
    n = 1
    big = np.zeros((2 * ny, 2 * nx))
    big[::2, ::2] = q
    ro = q.copy()
    ro.setflags(write=False)
    zz = np.zeros(2 * len(z))
    zz[::2] = z
    # Only representations the property's wording covers: the SAME float64 field in another memory layout (any
    # surface-flux field is an ndarray of float, however it is laid out), and - in footprint mode, where values must
    # not matter at all - arrays of other dtypes.  (On the unchanged tree a float32 source or a strided z raise a numba
    # TypingError in the numerical mode; no property promises those, so they are not judged here.)
    variants = {
        "source Fortran order": dict(srf_flx=np.asfortranarray(q)),
        "source strided view": dict(srf_flx=big[::2, ::2]),
        "source read-only": dict(srf_flx=ro),
    }
    if case["footprint"]:
        variants.update({
            "source int64": dict(srf_flx=q.astype(np.int64)),
            "source int32": dict(srf_flx=q.astype(np.int32)),
            "source float32": dict(srf_flx=q.astype(np.float32)),
            "source bool": dict(srf_flx=q > 0),
        })
    for name, ch in variants.items():
        kw = dict(base_kw)
        srf = ch.pop("srf_flx", q)
        kw.update(ch)
        try:
            _, c, f = S0(srf, **kw)
        except Exception as e:
            v.append({"sub": "representation", "sig": "representation/raises/%s" % name.split()[0], "msg": "%s: the call raises %s: %s; config %s" % (name, type(e).__name__, str(e)[:150], core.canon(case))})
            continue
        n += 1
        got = np.stack([np.asarray(c, dtype=float), np.asarray(f, dtype=float)])
        e = sl.relerr(got, ref, sc)
        if not e <= 1e-12:
            v.append({"sub": "representation", "sig": "representation/%s" % name.split()[0], "msg": "%s: result differs from the float64 / tuple / C-contiguous call with the same numbers by %.2e of the field maximum; config %s" % (name, e, core.canon(case))})
    if not np.array_equal(ro, q):
        v.append({"sub": "representation", "sig": "representation/input-modified", "msg": "input array modified"})
    return {"v": v[:8], "nt": n, "key": core.canon(case), "n": n}


def _ro(a):
    a = a.copy()
    a.setflags(write=False)
    return a


def run(ctx):
    os.environ["VERIF_SEED"] = str(ctx.seed)
    core.warm_numba()
    ctx.rule = (
        "complete product of the configuration lattice (quick: 2 profile sets x 3 halos x 2 mode counts x numeric/analytic(const only), double; thorough: "
        "4 x 2 grids x 4 halos x 3 mode counts x 2 precisions); per configuration: full impulse basis superposition, 3 fields x 5 scalars, 6 ordered pairs x 3 "
        "coefficient pairs, 3 fields x 3 backgrounds, 5 source fillings in footprint mode; all configurations are distinct lattice points (non-trivial); evaluations counts solver executions"
    )
    callforms.run_solver_forms(ctx)
    errorpaths.run(ctx, case_linear, [c for c in configs(ctx.tier) if not c['analytic'] and c['prof'] == 'most_aniso'][:1])
    errorpaths.run_threaded(ctx, case_linear, [c for c in configs(ctx.tier) if not c['analytic'] and c['prof'] == 'most_aniso'][:1], threads=(2, 8))
    ctx.run_cases(case_linear, configs(ctx.tier), sub="linearity", chunksize=1)
    ctx.run_cases(case_representation, repr_cases(ctx.tier), sub="argument-representation", chunksize=1)
    bigcases.run(ctx, "C04")
