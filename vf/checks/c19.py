"""C19 - the Kormann-Meixner reference equals its published closed form for all inputs.

Lattice: zm {2, 5, 10, 30} x z0 {0.01, 0.1, 0.5} x (ws, ustar) pairs x L {-20, -500, 1e9, 200, 30} x sigma_v
{0.5, 1.2}; TYPE variants of every scalar {float, int, numpy.int64, numpy.float64} at integer-valued points;
grid resolutions {20, 10, 5, 2.5}; receptor positions; wind directions {None, 0, 90, 180, 270 exactly,
30 and 137.5 pointwise}.  estimateZ0 on half-integer direction lattices with common integer rotations,
float and integer heights.
Oracle: vf/oracles/km.py (paper eqs. 9-36 with scipy.special) cell by cell; >= 0; zero in downwind cells;
symmetric about the wind axis; sum over cells -> incomplete-gamma mass x crosswind capture (scipy.quad) as the
grid is refined; rot90 identities at multiples of 90 degrees; typed variants equal the float result;
estimateZ0 equals the inverted diabatic log law, its smoothed form equals the brute-force median over the circular
direction window (dense lattice), and it is invariant under a common rotation.  Call HISTORIES: every ordered sequence of
(receptor, wind direction) calls on one grid up to depth 2 (thorough 3) must give each call its own closed form."""

import itertools
import math
import warnings

import numpy as np

from vf import bigcases
from vf import core
from vf import errorpaths
from vf.oracles import km

PROPERTY = "C19"
LEVEL = "exploration"
MANIFEST = {
    "technique": "bounded-exhaustive enumeration of the physical-parameter x scalar-type x resolution x wind-direction lattice against an independent closed-form oracle (cell by cell) and quadrature of the captured mass",
    "text": "Every point of the parameter lattice is evaluated cell by cell against a re-derivation of the published formulas; every scalar argument is additionally passed as Python int, numpy integer and numpy float at integer-valued lattice points (integer dtypes silently truncate intermediate results if an array is allocated 'like' the input); all multiples of 90 degrees are checked through exact rot90 identities and arbitrary angles pointwise; the cell sum is followed along a four-step resolution ladder towards the incomplete-gamma mass.",
    "note": "Cell tolerance 1e-9 of the field maximum; mass ladder: error non-increasing (5 % slack) and <= 2 % at 2.5 m for cases whose footprint peak is resolved by >= 4 cells at 20 m. Cases with negative power-law velocity constant U (physically impossible, the model returns an empty footprint with a warning) are excluded.",
}

PHYS = [(zm, z0, ws, us, L, sv) for zm, z0, (ws, us), L, sv in itertools.product((2.0, 5.0, 10.0, 30.0), (0.01, 0.1, 0.5), ((3.0, 0.3), (6.0, 0.6), (2.0, 0.5)), (-20.0, -500.0, 1e9, 200.0, 30.0, float("inf"), float("-inf"), -3.0, 5.0), (0.5, 1.2))]
TYPES = {"float": float, "int": int, "np.int64": np.int64, "np.float64": np.float64, "np.int32": np.int32}


class _GridMismatch(Exception):
    pass


def _call(*a, **k):
    from bldfm.ffm_kormann_meixner import estimateFootprint

    with warnings.catch_warnings():
        warnings.simplefilter("ignore")
        gx, gy, f = estimateFootprint(*a, **k)
    # the returned cell centres are part of the result: compare them with the documented layout (upper-left cell first,
    # centres at xmin + (i + 1/2) res, ymax - (j + 1/2) res) before anything is derived from them
    dom, res = a[6], float(a[7])
    ex = np.arange(dom[0] + 0.5 * res, dom[1], res)
    ey = np.arange(dom[3] - 0.5 * res, dom[2], -res)
    EX, EY = np.meshgrid(ex, ey)
    if np.shape(gx) != EX.shape or not (np.allclose(gx, EX, rtol=0, atol=1e-9) and np.allclose(gy, EY, rtol=0, atol=1e-9)):
        raise _GridMismatch("returned cell centres are not those of the requested grid (domain %r, resolution %g): shape %s, expected %s; first centre (%.9g, %.9g), expected (%.9g, %.9g)" % (list(dom), res, np.shape(gx), EX.shape, np.ravel(gx)[0], np.ravel(gy)[0], EX[0, 0], EY[0, 0]))
    return gx, gy, f


def _grid_guard(fn):
    import functools

    @functools.wraps(fn)
    def wrapped(case):
        try:
            return fn(case)
        except _GridMismatch as e:
            return {"v": [{"sub": "grid", "sig": "grid/cell-centres", "msg": "%s; case %s" % (e, core.canon(case)[:300])}], "nt": True, "n": 1}

    return wrapped


@_grid_guard
def case_cells(chunk):
    v = []
    n = 0
    for (zm, z0, ws, us, L, sv) in chunk:
        p = km.params(zm, z0, ws, us, L)
        if p["U"] <= 0:
            continue
        lab = "zm=%g z0=%g ws=%g ustar=%g L=%g sigma_v=%g" % (zm, z0, ws, us, L, sv)
        # resolutions that are / are not binary fractions, extents that are / are not whole multiples of the resolution
        for res, mxy, dom in ((20.0, (10.0, -5.0), [-60.0, 600.0, -300.0, 300.0]), (5.0, (0.0, 0.0), [-60.0, 600.0, -300.0, 300.0]),
                              (0.7, (0.0, 0.0), [-1.4, 21.0, -7.0, 7.0]), (0.3, (0.3, 0.0), [0.0, 2.1, -2.1, 2.1]), (5.0, (0.0, 0.0), [-60.0, 601.0, -301.0, 301.0])):
            gx, gy, f = _call(zm, z0, ws, us, L, sv, dom, res, list(mxy))
            n += 1
            o, _ = km.footprint(gx - mxy[0], gy - mxy[1], zm, z0, ws, us, L, sv)
            o = o * res**2
            sc = max(o.max(), 1e-300)
            e = np.abs(f - o).max() / sc
            if not e <= 1e-9:
                v.append({"sub": "cells", "sig": "cells/%s" % ("unstable" if L < 0 else "stable"), "msg": "%s res=%g: cell values differ from the published form by %.2e of the maximum" % (lab, res, e)})
            if f.min() < 0:
                v.append({"sub": "nonneg", "sig": "nonneg", "msg": "%s: negative footprint value %g" % (lab, f.min())})
            if np.any(f[(gx - mxy[0]) <= 0] != 0):
                v.append({"sub": "downwind", "sig": "downwind", "msg": "%s: non-zero weight in a downwind cell" % lab})
            # (only where the rows of cell centres mirror each other about the wind axis; gy was checked by _call)
            if mxy[1] == 0.0 and np.allclose(gy[:, 0], -gy[::-1, 0], rtol=0, atol=1e-9) and np.abs(f - f[::-1, :]).max() > 1e-12 * sc:
                v.append({"sub": "symmetry", "sig": "symmetry", "msg": "%s: footprint is not symmetric about the wind axis (%.2e)" % (lab, np.abs(f - f[::-1, :]).max() / sc)})
        # wind directions: square grid symmetric about the receptor
        dom = [-200.0, 200.0, -200.0, 200.0]
        res = 10.0
        base = _call(zm, z0, ws, us, L, sv, dom, res, [0.0, 0.0])[2]
        sc = max(base.max(), 1e-300)
        F = {}
        for wd in (0.0, 90.0, 180.0, 270.0, 30.0, 137.5, 360.0):
            # the direction as keyword or as the documented tenth positional argument, alternating
            gx, gy, f = _call(zm, z0, ws, us, L, sv, dom, res, [0.0, 0.0], wd=wd) if int(wd) % 20 else _call(zm, z0, ws, us, L, sv, dom, res, [0.0, 0.0], wd)
            n += 1
            F[wd] = f
            xr, yr = km.rotate(gx, gy, wd)
            o, _ = km.footprint(xr, yr, zm, z0, ws, us, L, sv)
            # cells whose upwind coordinate is within rounding of zero are excluded (0 * inf on either side)
            ok = np.abs(xr) > 1e-9
            e = np.abs(f - o * res**2)[ok].max() / sc
            if not e <= 1e-9:
                v.append({"sub": "rotation", "sig": "rotation/pointwise", "msg": "%s wd=%g: differs from the footprint evaluated at the rotated coordinates by %.2e of the maximum" % (lab, wd, e)})
        # the same square grid with the receptor OFF its centre (equal rows and columns, cardinal and oblique directions):
        # the footprint turns about the receptor, not about the middle of the grid
        for rx, ry in ((30.0, -50.0), (-70.0, 20.0)):
            for wd in (0.0, 90.0, 180.0, 270.0, 45.0, 137.5, 360.0, -90.0):
                gx, gy, f = _call(zm, z0, ws, us, L, sv, dom, res, [rx, ry], wd=wd)
                n += 1
                xr, yr = km.rotate(gx - rx, gy - ry, wd)
                o, _ = km.footprint(xr, yr, zm, z0, ws, us, L, sv)
                ok = np.abs(xr) > 1e-9
                e = np.abs(f - o * res**2)[ok].max() / sc
                if not e <= 1e-9:
                    v.append({"sub": "rotation", "sig": "rotation/off-centre", "msg": "%s wd=%g, receptor (%g, %g) on a square grid: differs from the footprint evaluated at the coordinates rotated about the receptor by %.2e of the maximum" % (lab, wd, rx, ry, e)})
        # wd=90 is the along-wind grid itself; the others are quarter turns of it (image rows run north -> south)
        for wd, k in ((90.0, 0), (0.0, 1), (270.0, 2), (180.0, 3)):
            e = np.abs(F[wd] - np.rot90(base, k)).max() / sc
            if not e <= 1e-9:
                v.append({"sub": "rotation", "sig": "rotation/rot90", "msg": "%s: footprint for wd=%g is not the along-wind footprint turned by %d quarter turns (%.2e)" % (lab, wd, k, e)})
        if np.abs(F[360.0] - F[0.0]).max() > 1e-9 * sc:
            v.append({"sub": "rotation", "sig": "rotation/360", "msg": "%s: wd=360 differs from wd=0" % lab})
    return {"v": v[:6], "nt": n, "key": core.case_hash(chunk), "n": n}


@_grid_guard
def case_types(chunk):
    v = []
    n = 0
    dom, res, mxy = [-40.0, 400.0, -100.0, 100.0], 10.0, [0.0, 0.0]
    for (zm, z0, ws, us, L, sv) in chunk:
        ref = _call(float(zm), float(z0), float(ws), float(us), float(L), float(sv), dom, res, mxy)[2]
        if not ref.max() > 0:
            continue
        sc = ref.max()
        names = ("zm", "z0", "ws", "ustar", "mo_len", "sigma_v")
        vals = (zm, z0, ws, us, L, sv)
        for k, tname in itertools.product(range(6), TYPES):
            if float(vals[k]) != int(vals[k]) and "int" in tname:
                continue
            args = [float(x) for x in vals]
            args[k] = TYPES[tname](vals[k])
            f = _call(*args, dom, res, mxy)[2]
            n += 1
            e = np.abs(np.asarray(f, dtype=float) - ref).max() / sc
            if not e <= 1e-12:
                v.append({"sub": "types", "sig": "types/%s/%s" % (names[k], "integer" if "int" in tname else "float"),
                          "msg": "%s given as %s(%r): footprint differs from the all-float result by %.2e of the maximum (zm=%r z0=%r ws=%r ustar=%r L=%r sigma_v=%r)" % (names[k], tname, vals[k], e, zm, z0, ws, us, L, sv)})
        # everything integer at once
        if all(float(x) == int(x) for x in vals):
            f = _call(*[int(x) for x in vals], dom, res, mxy)[2]
            n += 1
            e = np.abs(np.asarray(f, dtype=float) - ref).max() / sc
            if not e <= 1e-12:
                v.append({"sub": "types", "sig": "types/all-int", "msg": "all scalars as Python int %r: differs from the float result by %.2e" % (vals, e)})
    return {"v": v[:6], "nt": n, "key": core.case_hash(chunk), "n": n}


@_grid_guard
def case_mass(case):
    zm, z0, ws, us, L, sv = case["p"]
    p = km.params(zm, z0, ws, us, L)
    v = []
    if p["U"] <= 0:
        return {"v": [], "nt": False}
    xup, yh = 2000.0, 800.0
    I, G = km.captured_mass(p, sv, xup, yh)
    errs = []
    ladder = (20.0, 10.0, 5.0, 2.5) if case["tier"] == "quick" else (40.0, 20.0, 10.0, 5.0, 2.5)
    for res in ladder:
        f = _call(zm, z0, ws, us, L, sv, [0.0, xup, -yh, yh], res, [0.0, 0.0])[2]
        errs.append(abs(f.sum() - I) / I)
    peak = p["xi"] / (1 + p["mu"])
    resolved = peak >= 4 * 20.0
    lab = "zm=%g z0=%g ws=%g ustar=%g L=%g sigma_v=%g (peak at %.0f m)" % (zm, z0, ws, us, L, sv, peak)
    if resolved:
        for a, b in zip(errs[:-1], errs[1:]):
            if b > 1.05 * a + 1e-4:  # below 1e-4 the midpoint sum has converged; its last digits are not monotone
                v.append({"sub": "mass", "sig": "mass/monotone", "msg": "%s: |sum - captured mass|/mass along the resolution ladder %s is %s - not decreasing" % (lab, ladder, ["%.2e" % e for e in errs])})
                break
        if errs[-1] > 2e-2:
            v.append({"sub": "mass", "sig": "mass/limit", "msg": "%s: at 2.5 m the cell sum still differs from the captured mass %.6f (gammaincc %.6f) by %.2e" % (lab, I, G, errs[-1])})
    return {"v": v, "nt": bool(resolved), "n": len(ladder), "obs": {"captured_mass": I, "gammaincc": G, "errors": ["%.2e" % e for e in errs], "resolved": bool(resolved)}}


@_grid_guard
def case_history(case):
    """call histories on ONE output grid: every ordered sequence of (receptor, wind direction) calls up to the depth
    bound; each result must equal the closed form for ITS OWN arguments whatever was computed before"""
    zm, z0, ws, us, L, sv = 10.0, 0.1, 3.0, 0.4, -50.0, 0.8
    dom, res = [-100.0, 300.0, -150.0, 150.0], 10.0
    v = []
    n = 0
    for k, (mxy, wd) in enumerate(case["ops"]):
        gx, gy, f = _call(zm, z0, ws, us, L, sv, dom, res, list(mxy), wd=wd)
        n += 1
        xr, yr = (gx - mxy[0], gy - mxy[1]) if wd is None else km.rotate(gx - mxy[0], gy - mxy[1], wd)
        o, _ = km.footprint(xr, yr, zm, z0, ws, us, L, sv)
        ok = np.abs(xr) > 1e-9
        e = np.abs(f - o * res**2)[ok].max() / max((o * res**2).max(), 1e-300)
        if not e <= 1e-9:
            v.append({"sub": "history", "sig": "history", "msg": "call %d of the history %s on one grid differs from the closed form for its own receptor/wind direction by %.2e of the maximum" % (k, case["ops"], e)})
            break
    return {"v": v, "nt": len(case["ops"]) > 1, "n": n}


@_grid_guard
def case_phys_history(case):
    """two consecutive calls on one grid that differ in exactly one physical parameter: the second must be its own closed form"""
    dom, res, mxy = [-100.0, 300.0, -150.0, 150.0], 10.0, [0.0, 0.0]
    v = []
    for k, p in enumerate(case["phys"]):
        gx, gy, f = _call(*p, dom, res, mxy)
        o, _ = km.footprint(gx, gy, *p)
        e = np.abs(f - o * res**2).max() / max((o * res**2).max(), 1e-300)
        if not e <= 1e-9:
            v.append({"sub": "history", "sig": "history/parameters", "msg": "call %d of the parameter history %s differs from its own closed form by %.2e of the maximum" % (k, case["phys"], e)})
            break
    return {"v": v, "nt": True, "n": 2}


def _z0_oracle(zmv, ws, wd, us, L, hw):
    """circular-window median of the log-law inversions, by brute force"""
    raw = np.array([km.z0_from_loglaw(zmv, ws[i], us[i], L[i]) for i in range(len(ws))])
    raw = np.where(raw > 1000, np.nan, raw)
    out = np.full(len(ws), np.nan)
    for i in range(len(ws)):
        kk = math.floor(wd[i])
        lo, hi = kk - hw, kk + 1 + hw
        sel = [j for j in range(len(ws)) if any(lo <= wd[j] + s < hi for s in (-360.0, 0.0, 360.0))]
        out[i] = np.nanmedian(raw[sel])
    return out


def case_z0(case):
    from bldfm.ffm_kormann_meixner import estimateZ0

    v = []
    n = 0
    rng_wd = np.arange(0.5, 360.0, 7.0)  # half-integer lattice: bins [k, k+1) are unambiguous
    nobs = len(rng_wd)
    for zmv, ztype in [(case["zm"], case["ztype"])]:
        zm = np.full(nobs, zmv).astype({"float": float, "int": int, "np.int64": np.int64}[ztype])
        ws = 2.0 + (np.arange(nobs) % 5) * 0.7
        us = 0.25 + (np.arange(nobs) % 4) * 0.1
        L = np.array([(-30.0, -400.0, 1e9, 150.0, 40.0)[i % 5] for i in range(nobs)])
        raw = estimateZ0(zm, ws, rng_wd, us, L, half_wd_win=0)
        n += 1
        want = np.array([km.z0_from_loglaw(zmv, ws[i], us[i], L[i]) for i in range(nobs)])
        want = np.where(want > 1000, np.nan, want)
        if not np.allclose(raw, want, rtol=1e-10, atol=0, equal_nan=True):
            v.append({"sub": "z0-loglaw", "sig": "z0-loglaw/%s" % ("integer" if "int" in ztype else "float"), "msg": "estimateZ0 (no smoothing, zm=%g as %s) differs from the inverted diabatic log law by up to %.2e (relative)" % (zmv, ztype, np.nanmax(np.abs(raw / want - 1)))})
        # dense half-integer lattice (one observation per 1-degree bin), direction-dependent values: brute-force oracle
        dwd = np.arange(0.5, 360.0, 1.0)
        nd = len(dwd)
        dzm = np.full(nd, zmv).astype(zm.dtype)
        dws = 2.0 + 1.5 * np.sin(np.radians(dwd * 3)) ** 2 + (np.arange(nd) % 7) * 0.13
        dus = 0.25 + (np.arange(nd) % 5) * 0.07
        dL = np.array([(-30.0, -400.0, 1e9, 150.0, 40.0)[i % 5] for i in range(nd)])
        for win in (22, 10, 45, 1, 22.5, 7.5, 1.25):  # the documented "45-degree window" is half_wd_win = 22.5
            got = estimateZ0(dzm, dws, dwd, dus, dL, half_wd_win=win)
            want = _z0_oracle(zmv, dws, dwd, dus, dL, win)
            n += 1
            if not np.allclose(got, want, rtol=1e-10, atol=0, equal_nan=True):
                i = int(np.nanargmax(np.abs(got / want - 1)))
                v.append({"sub": "z0-window", "sig": "z0-window", "msg": "estimateZ0 (window %g, zm=%g as %s): observation at %.1f deg gets %.8g, the median over its circular direction window is %.8g" % (win, zmv, ztype, dwd[i], got[i], want[i])})
            # whole-degree directions 0..359 (what a logger that reports integer degrees delivers), as floats and as integers:
            # every window edge falls exactly on an observation
            for wdt in (float, np.int64):
                iwd = np.arange(0, 360).astype(wdt)
                goti = estimateZ0(dzm, dws, iwd, dus, dL, half_wd_win=win)
                wanti = _z0_oracle(zmv, dws, iwd.astype(float), dus, dL, win)
                n += 1
                if not np.allclose(goti, wanti, rtol=1e-10, atol=0, equal_nan=True):
                    i = int(np.nanargmax(np.abs(goti / wanti - 1)))
                    v.append({"sub": "z0-window", "sig": "z0-window/whole-degrees", "msg": "estimateZ0 (window %g, zm=%g as %s, whole-degree directions as %s): observation at %d deg gets %.8g, the median over its circular direction window is %.8g" % (win, zmv, ztype, np.dtype(wdt).name, int(iwd[i]), goti[i], wanti[i])})
            for rot in (1, 23, 90, 137, 338):
                r = estimateZ0(dzm, dws, (dwd + rot) % 360.0, dus, dL, half_wd_win=win)
                n += 1
                if not np.allclose(r, got, rtol=1e-12, atol=0, equal_nan=True):
                    v.append({"sub": "z0-rotation", "sig": "z0-rotation", "msg": "estimateZ0 (window %g, dense lattice, zm=%g as %s) changes under a common rotation by %d degrees (max rel. change %.2e)" % (win, zmv, ztype, rot, np.nanmax(np.abs(r / got - 1)))})
                    break
        # data gaps and rejected records: a sparse series (one record every 25 degrees, so a +-10 degree window holds
        # one record and a +-22 degree window at most two) in which single records are unusable - a NaN wind speed (logger
        # gap) or, for the tall mast, an inversion above 1000 m that the function discards.  Every OTHER record still gets
        # the median over its own window, wherever the unusable record sits on the circle.
        swd = np.arange(3.5, 360.0, 25.0)
        nsp = len(swd)
        szm = np.full(nsp, zmv).astype(zm.dtype)
        sus = 0.25 + (np.arange(nsp) % 4) * 0.1
        sL = np.array([(-30.0, -400.0, 1e9, 150.0, 40.0)[i % 5] for i in range(nsp)])
        for badpos, kind in itertools.product((0, 1, nsp // 2, nsp - 1), ("nan-wind", "discarded")):
            sws = 2.0 + (np.arange(nsp) % 5) * 0.7
            sLb = sL.copy()
            if kind == "nan-wind":
                sws[badpos] = np.nan
            else:
                if zmv < 30.0:
                    continue
                sws[badpos], sLb[badpos] = 0.1, -0.5  # inverted log law gives a roughness length above 1000 m
            for win in (10, 22):
                with warnings.catch_warnings():
                    warnings.simplefilter("ignore")
                    got = estimateZ0(szm, sws, swd, sus, sLb, half_wd_win=win)
                    want = _z0_oracle(zmv, sws, swd, sus, sLb, win)
                    n += 1
                    ok = np.allclose(got, want, rtol=1e-10, atol=0, equal_nan=True)
                    rots_ok = True
                    for rot in (90, 301):
                        r = estimateZ0(szm, sws, (swd + rot) % 360.0, sus, sLb, half_wd_win=win)
                        n += 1
                        rots_ok = rots_ok and np.allclose(r, got, rtol=1e-12, atol=0, equal_nan=True)
                if not ok:
                    i = int(np.argmax(~np.isclose(got, want, rtol=1e-10, atol=0, equal_nan=True)))
                    v.append({"sub": "z0-gaps", "sig": "z0-gaps/%s" % kind, "msg": "estimateZ0 (window %d, zm=%g as %s) on a sparse series whose record %d (%.1f deg) is unusable (%s): record %d at %.1f deg gets %r, the median over its own window is %r"
                              % (win, zmv, ztype, badpos, swd[badpos], kind, i, swd[i], got[i], want[i])})
                if not rots_ok:
                    v.append({"sub": "z0-rotation", "sig": "z0-rotation/gaps", "msg": "estimateZ0 (window %d, zm=%g as %s) on a sparse series with an unusable record (%s at position %d) changes under a common rotation of all wind directions" % (win, zmv, ztype, kind, badpos)})
        for win in (22, 5):
            base = estimateZ0(zm, ws, rng_wd, us, L, half_wd_win=win)
            for rot in (1, 37, 90, 211, 359):
                r = estimateZ0(zm, ws, (rng_wd + rot) % 360.0, us, L, half_wd_win=win)
                n += 1
                if not np.allclose(r, base, rtol=1e-12, atol=0, equal_nan=True):
                    v.append({"sub": "z0-rotation", "sig": "z0-rotation", "msg": "estimateZ0 (window %d, zm=%g as %s) changes under a common rotation of all wind directions by %d degrees (max rel. change %.2e)" % (win, zmv, ztype, rot, np.nanmax(np.abs(r / base - 1)))})
                    break
    return {"v": v[:6], "nt": n, "n": n}


def _chunks(seq, k):
    return [seq[i:i + k] for i in range(0, len(seq), k)]


def run(ctx):
    phys = PHYS if ctx.tier != "quick" else [p for i, p in enumerate(PHYS) if (i + i // 18) % 3 == 0]  # every third point, the phase moving with each (zm, z0, wind) block so that every L and sigma_v occurs
    ints = [(zm, z0, ws, us, L, sv) for zm, z0, ws, us, L, sv in itertools.product((2.0, 10.0, 30.0), (1.0, 0.1), (3.0, 6.0), (1.0, 0.4), (-20.0, -500.0, 200.0, 30.0), (1.0, 0.5)) if z0 < zm / 2]
    if ctx.tier == "quick":
        ints = ints[::2]
    ctx.rule = (
        "cells/rotations: every physical lattice point (quick: every third) x 2 resolutions/receptors x 7 wind directions; types: integer-valued lattice points x 6 scalars x 5 scalar types; "
        "mass: resolution ladder per physical point (non-trivial when the peak is resolved by >= 4 cells at 20 m); estimateZ0: 3 heights x 3 dtypes x 2 windows x 5 rotations; evaluations counts model calls"
    )
    ctx.run_cases(case_cells, _chunks(phys, 8), sub="cells+rotation", chunksize=1)
    from vf import callerenv
    callerenv.run(ctx, case_cells, _chunks(phys, 8)[:2])
    errorpaths.run_threaded(ctx, case_cells, _chunks(phys, 8)[:2], threads=(2, 3, 4, 6))
    ctx.run_cases(case_types, _chunks(ints, 8), sub="scalar-types", chunksize=1)
    ctx.run_cases(case_mass, [{"p": list(p), "tier": ctx.tier} for p in phys[:: (2 if ctx.tier == "quick" else 1)]], sub="captured-mass", chunksize=1)
    ctx.run_cases(case_z0, [{"zm": zz, "ztype": t} for zz, t in itertools.product((2.0, 10.0, 30.0), ("float", "int", "np.int64"))], sub="estimateZ0", chunksize=1)
    alphabet = [[list(m), w] for m in ((0.0, 0.0), (10.0, -5.0), (40.0, 20.0)) for w in (None, 30.0)]
    # plus one-argument twins of the physical parameters (same grid and receptor): (zm, z0, ws, ustar, L, sigma_v)
    phys = [(10.0, 0.1, 3.0, 0.4, -50.0, 0.8), (10.0, 0.1, 3.0, 0.25, -50.0, 0.8), (10.0, 0.1, 5.0, 0.4, -50.0, 0.8), (10.0, 0.3, 3.0, 0.4, -50.0, 0.8), (10.0, 0.1, 3.0, 0.4, 80.0, 0.8), (4.0, 0.1, 3.0, 0.4, -50.0, 0.8), (10.0, 0.1, 3.0, 0.4, -50.0, 1.3)]
    ph = [{"phys": [list(a), list(b)]} for a in phys for b in phys if a != b]
    ctx.run_cases(case_phys_history, ph, sub="parameter-histories")
    depth = 2 if ctx.tier == "quick" else 3
    hist = [{"ops": list(h)} for d in range(1, depth + 1) for h in itertools.product(alphabet, repeat=d)]
    ctx.run_cases(case_history, hist, sub="call-histories")
    bigcases.run(ctx, "C19")
