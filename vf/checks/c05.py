"""C05 - uniform profiles: analytic mode is the closed form; numerics reach third order.

(a) closed form: analytic=True vs vf/oracles/halfspace.py (DFT-matrix restatement of
    pad/truncate/shift/crop around the per-mode closed form) on the complete lattice
    constant profile sets (incl. u=0, v=0, no wind, Kx != Ky != Kz) x grids (even, odd) x halos x
    mode counts x measurement points {(0,0), on-grid, off-grid} x {dispersion, footprint} x level sets x sources.
(b) order: numeric vs closed form on uniform vertical ladders n, 2n, 4n, 8n (n=8), per retained mode
    and in the maximum norm: error ratio >= 6.5 per halving inside the resolved regime."""

import itertools
import os

import numpy as np

from vf import bigcases
from vf import core
from vf import callforms
from vf import errorpaths
from vf import solverlib as sl
from vf.oracles import halfspace

PROPERTY = "C05"
LEVEL = "exploration"
MANIFEST = {
    "technique": "bounded-exhaustive enumeration of constant-coefficient configuration lattice against an independent closed-form oracle; complete per-wavenumber refinement ladders for the order claim",
    "text": "Analytic mode is compared cell by cell with an independent numpy evaluation of the closed form for every point of a lattice of constant profile sets (including zero wind components and anisotropy), grids of both parities, seven halos, three mode counts, on-/off-grid towers, both modes, several level sets (ascending, descending, with the top node) and sources. The order claim is decided per retained wavenumber on four-step refinement ladders: every resolved mode's error must fall by at least 6.5 per halving of the layer thickness (the property's 'about eightfold').",
    "note": "Closed-form tolerance 1e-10 of the field maximum. Ladder restricted as the property says: |T|dz^2/Kz <= 1 on the coarsest grid, sum(Re lambda dz) <= 18, and pairs whose finer error is below 1e-11 (rounding floor) are not judged. A finite ladder cannot prove an asymptotic order.",
}

CONST = {
    "aniso": (2.3, -1.1, 1.7, 0.6, 0.9),
    "u0": (0.0, 1.5, 1.0, 1.3, 0.8),
    "v0": (1.5, 0.0, 0.5, 2.0, 1.0),
    "calm": (0.0, 0.0, 1.2, 0.7, 1.0),
}
ZL = np.array([0.05, 0.4, 1.1, 2.3, 3.9, 5.0, 7.5, 10.0])


def closed_cases(tier):
    grids = [((8, 6), (80.0, 90.0)), ((7, 5), (70.0, 75.0))] if tier == "quick" else [((8, 6), (80.0, 90.0)), ((6, 8), (90.0, 80.0)), ((7, 5), (70.0, 75.0)), ((5, 8), (75.0, 80.0))]
    halos = (0.0, None, 13.0, 20.0) if tier == "quick" else sl.HALOS
    lvsets = ([3], [0, 2, 5], [7, 1], [2, 5, 2]) if tier == "quick" else ([3], [0, 2, 5], [7, 1], 4, [6, 5, 4, 0], [2, 5, 2], [3, 3])  # incl. a node requested twice
    # [64, 4] / [4, 64]: the request exceeds the padded grid in ONE direction only - documented answer: all modes in both
    for pn, g, h, m, mp, fp, lv in itertools.product(CONST, grids, halos, ("full", [4, 4], [64, 64], [64, 4], [4, 64]), ("zero", "grid", "off"), (False, True), lvsets):
        nx, ny = g[0]
        nxe, nye, _, _ = sl.padded_size(nx, ny, g[1], h)
        mm = (nxe, nye) if m == "full" else tuple(m)
        if m == "full" and (nxe % 2 or nye % 2):
            continue  # an odd count cannot be requested explicitly
        if sl.effective_modes(mm, nxe, nye) is None:
            continue  # rejected combinations (odd difference / odd count): C11's business
        if m in ([64, 4], [4, 64]) and (mp == "off" or lv != lvsets[1]):
            continue  # one level set and two tower positions suffice for the one-sided requests
        yield {"prof": pn, "grid": g[0], "dom": g[1], "halo": h, "modes": m, "mp": mp, "footprint": fp, "levels": lv}


def case_closed(case):
    S0 = sl.solver()
    seed = int(os.environ.get("VERIF_SEED", "0") or 0)
    nx, ny = case["grid"]
    dom = tuple(case["dom"])
    dx, dy = dom[0] / nx, dom[1] / ny
    pv = CONST[case["prof"]]
    z = ZL
    prof = tuple(np.full(len(z), x) for x in pv)
    modes = sl.resolve_modes(case["modes"], nx, ny, dom, case["halo"])
    eff = sl.effective_modes(modes, *sl.padded_size(nx, ny, dom, case["halo"])[:2])
    sl.pollute(*sl.padded_size(nx, ny, dom, case["halo"])[:2], dx, dy)
    mp = {"zero": (0.0, 0.0), "grid": (3 * dx, 2 * dy), "off": (13.0, 22.0)}[case["mp"]]
    mp_values = mp
    if case["mp"] != "zero" and (nx + len(case["prof"])) % 2 == 0:
        mp = np.array(mp, dtype=float)  # a row of the caller's tower table: the same array object goes into every call below
    fp = case["footprint"]
    lv = case["levels"]
    lvl = [lv] if np.ndim(lv) == 0 else list(lv)
    rng = core.case_rng(seed, case)
    srcs = [("impulse", sl.impulse(ny, nx, 1, 2))] if fp else [("impulse", sl.impulse(ny, nx, 1, 2)), ("random", rng.standard_normal((ny, nx))), ("corner", sl.impulse(ny, nx, ny - 1, nx - 1))]
    v = []
    worst = 0.0
    n = 0
    buf = np.zeros((ny, nx))  # one preallocated source map refilled in place
    for bg, (sname, q) in zip((0.0, 2.5, -4.0), srcs):
        buf[...] = q
        _, c, f = S0(buf, z, prof, dom, lv, modes=modes, halo=case["halo"], meas_pt=mp, footprint=fp, analytic=True, precision="double", srf_bg_conc=bg)
        n += 1
        c, f = sl.as3d(c, len(lvl)), sl.as3d(f, len(lvl))
        if tuple(float(t) for t in mp) != tuple(mp_values):
            v.append({"sub": "argument-modified", "sig": "argument-modified/meas_pt", "msg": "the solver changed the caller's meas_pt array from %r to %r; config %s" % (mp_values, tuple(mp), core.canon(case))})
            break
        cw, fw = halfspace.solve(q, dom, z[lvl] - z[0], pv, eff, case["halo"], meas_pt=mp_values, bg=bg, footprint=fp)
        for nm, a, b in (("conc", c, cw), ("flux", f, fw)):
            e = sl.relerr(a, b, max(np.abs(b).max(), abs(bg) if nm == "conc" else 0, 1e-300))
            worst = max(worst, e)
            if not e <= 1e-10:
                v.append({"sub": "closed-form", "sig": "closed-form/%s/%s" % ("footprint" if fp else "dispersion", nm),
                          "msg": "analytic %s (%s source, bg %g) differs from the closed form by %.2e of the field maximum; config %s" % (nm, sname, bg, e, core.canon(case))})
    return {"v": v[:4], "nt": True, "n": n, "obs": {"worst_rel_err": worst}}


def case_mean_profile(case):
    """the horizontal-mean concentration of the NUMERICAL mode equals the closed form's linear profile bg - q_mean*h/Kz
    (the trapezoid rule is exact for constant Kz), for float and for integer-typed node heights / profiles, on the same
    source map refilled in place between the two calls"""
    S0 = sl.solver()
    pv = CONST[case["prof"]]
    nx, ny, dom = 8, 6, (80.0, 90.0)
    v = []
    n = 0
    for zkind in ("float", "int-z", "int-z-and-K"):
        z = np.arange(1, 14) if zkind != "float" else ZL.copy()  # whole-metre nodes 1..13 m (growth sum(lambda dz) ~ 5)
        zf = z.astype(float)
        pvals = pv if zkind != "int-z-and-K" else (2, -1, 3, 1, 2)
        prof = tuple(np.full(len(z), x, dtype=(np.int64 if zkind == "int-z-and-K" else float)) for x in pvals)
        lv = [0, 3, len(z) - 1, 1]
        buf = np.zeros((ny, nx))
        for k, bg in enumerate((0.0, 2.5)):
            buf[...] = sl.impulse(ny, nx, 1, 2) * (1.0 + k) + 0.25 * k
            qm = buf.mean()
            for an in (False, True):
                _, c, f = S0(buf, z, prof, dom, lv, modes=(8, 6), halo=case["halo"], precision="double", srf_bg_conc=bg, analytic=an)
                n += 1
                # mean over the padded periodic domain: with a halo the cropped mean is not the spectral mean, so use halo=0 only for the mean law
                if case["halo"] == 0.0:
                    want = bg - qm * (zf[lv] - zf[0]) / float(pvals[4])
                    got = np.asarray(c).reshape(len(lv), -1).mean(axis=1)
                    e = np.abs(got - want).max() / max(np.abs(want).max(), abs(qm) * (zf[-1] - zf[0]) / float(pvals[4]))
                    if not e <= 1e-10:
                        v.append({"sub": "mean-profile", "sig": "mean-profile/%s/%s" % (zkind, "analytic" if an else "numeric"),
                                  "msg": "%s mode, %s heights: mean concentration at levels %s is %s, closed form %s (profile %s, bg %g)" % ("analytic" if an else "numerical", zkind, lv, np.round(got, 6).tolist(), np.round(want, 6).tolist(), case["prof"], bg)})
            # numerical == analytic field-wise for the mean-free part is the order ladder's job; here: typed twin == float twin
            if zkind != "float":
                _, c1, f1 = S0(buf, z, prof, dom, lv, modes=(8, 6), halo=case["halo"], precision="double", srf_bg_conc=bg)
                _, c2, f2 = S0(buf.copy(), zf, tuple(p.astype(float) for p in prof), dom, lv, modes=(8, 6), halo=case["halo"], precision="double", srf_bg_conc=bg)
                n += 2
                e = max(sl.relerr(c1, c2, max(np.abs(c2).max(), 1e-300)), sl.relerr(f1, f2, max(np.abs(f2).max(), 1e-300)))
                if not e <= 1e-12:
                    v.append({"sub": "mean-profile", "sig": "typed-column/%s" % zkind, "msg": "numerical mode with %s differs from the same column as floats by %.2e of the maximum (halo %r, profile %s)" % (zkind, e, case["halo"], case["prof"])})
    return {"v": v[:6], "nt": n, "key": core.canon(case), "n": n}


def order_cases(tier):
    grids = [((8, 6), (80.0, 90.0))] if tier == "quick" else [((8, 6), (80.0, 90.0)), ((6, 8), (300.0, 200.0)), ((12, 10), (120.0, 150.0))]
    tops = (6.0, 12.0) if tier == "quick" else (6.0, 12.0, 25.0)
    for pn, g, top in itertools.product(CONST, grids, tops):
        yield {"prof": pn, "grid": g[0], "dom": g[1], "ztop": top, "n0": 8, "steps": 4 if tier == "quick" else 5}


def case_order(case):
    S0 = sl.solver()
    nx, ny = case["grid"]
    dom = tuple(case["dom"])
    pv = CONST[case["prof"]]
    z0, zt = 0.5, case["ztop"]
    q = sl.impulse(ny, nx, 0, 0)
    kx = 2 * np.pi * np.fft.fftfreq(nx, d=dom[0] / nx)
    ky = 2 * np.pi * np.fft.fftfreq(ny, d=dom[1] / ny)
    KX, KY = np.meshgrid(kx, ky)
    errs = []
    ns = [case["n0"] * 2**k for k in range(case["steps"])]
    for n in ns:
        z = np.linspace(z0, zt, n + 1)
        prof = tuple(np.full(n + 1, x) for x in pv)
        lv = [n // 2, n, n // 2]  # the middle node is requested twice: both slices must converge
        _, c, f = S0(q, z, prof, dom, lv, modes=(nx, ny), halo=0.0, precision="double")
        Hp = np.fft.fft2(c, axes=(1, 2))
        Hq = np.fft.fft2(f, axes=(1, 2))
        e = []
        for k, l in enumerate(lv):
            rp, rq, lam = halfspace.transfer(KX, KY, z[l] - z0, pv)
            with np.errstate(all="ignore"):
                e.append([np.abs(Hp[k] - rp) / np.abs(rp), np.abs(Hq[k] - rq) / np.abs(rq)])
        errs.append(np.array(e))  # [level, p/q, ny, nx]
    errs = np.array(errs)  # [ladder, level, p/q, ny, nx]
    _, _, lam = halfspace.transfer(KX, KY, 0.0, pv)
    dz0 = (zt - z0) / ns[0]
    T = np.abs(lam**2) * pv[4]
    ok = np.ones((ny, nx), bool)
    ok[0, 0] = False
    if nx % 2 == 0:
        ok[:, nx // 2] = False
    if ny % 2 == 0:
        ok[ny // 2, :] = False
    ok &= (T * dz0**2 / pv[4] <= 1.0) & (lam.real * (zt - z0) <= 18.0)
    v = []
    judged = 0
    minratio = np.inf
    for k in range(len(ns) - 1):
        a, b = errs[k][..., ok], errs[k + 1][..., ok]
        valid = b >= 1e-11
        judged += int(valid.sum())
        with np.errstate(all="ignore"):
            r = np.where(valid, a / b, np.inf)
        if r.size:
            minratio = min(minratio, float(r.min()))
        if np.any(r < 6.5):
            idx = np.unravel_index(np.argmin(r), r.shape)
            v.append({"sub": "order", "sig": "order/ratio",
                      "msg": "n=%d -> %d layers: error ratio %.2f < 6.5 for a resolved mode (%s of the %s level; errors %.3e -> %.3e); config %s"
                      % (ns[k], ns[k + 1], r[idx], "p" if idx[1] == 0 else "q", ("middle", "top", "middle (second request)")[idx[0]], a[idx], b[idx], core.canon(case))})
    return {"v": v[:3], "nt": bool(ok.sum() >= 4 and judged > 0), "n": len(ns),
            "obs": {"resolved_modes": int(ok.sum()), "mode_pairs_judged": judged, "min_ratio": None if not np.isfinite(minratio) else round(minratio, 2), "ladder": ns}}


def field_order_cases(tier):
    regimes = {
        "ordinary": {"grid": [32, 16], "dom": [128.0, 64.0], "halo": 64.0, "modes": [32, 16], "height": 4.0},
        # cells fine against the output height, every mode kept: the fastest retained mode decays by exp(-18) below the
        # output level - still inside the regime the property names (growth bound 18), well resolved by 16+ layers
        "fine": {"grid": [32, 16], "dom": [32.0, 16.0], "halo": 16.0, "modes": [64, 48], "height": 3.0},
    }
    for (rn, r), prec, fp in itertools.product(regimes.items(), ("single", "double"), (False, True)):
        if fp and tier == "quick" and rn == "ordinary":
            continue
        yield dict(r, regime=rn, prec=prec, footprint=fp)


def case_field_order(case):
    """third order on the RETURNED FIELDS in the maximum norm (single precision stores fields to ~1e-7 of their maximum, so
    per-component errors are not meaningful there): numerical mode vs the harness' closed form on ladders of 16, 32, 64
    layers below the output height, in the default single and in double precision."""
    S0 = sl.solver()
    nx, ny = case["grid"]
    dom = tuple(case["dom"])
    pv = (3.0, 1.0, 0.7, 0.9, 0.5)
    fp = case["footprint"]
    q = np.zeros((ny, nx))
    q[ny // 3, nx // 4], q[ny // 2, nx // 2] = 1.0, 0.5
    mp = (dom[0] / nx * (nx // 2), dom[1] / ny * (ny // 3)) if fp else (0.0, 0.0)
    floor = 4e-6 if case["prec"] == "single" else 1e-11
    errs = []
    for n in (16, 32, 64):
        ntot = n + n // 2
        z = np.linspace(0.05, 0.05 + 1.5 * case["height"], ntot + 1)
        prof = tuple(np.full(ntot + 1, c) for c in pv)
        _, c, f = S0(q, z, prof, dom, n, modes=tuple(case["modes"]), halo=case["halo"], precision=case["prec"], footprint=fp, meas_pt=mp)
        cw, fw = halfspace.solve(q, dom, np.array([z[n] - z[0]]), pv, tuple(case["modes"]), case["halo"], meas_pt=mp, footprint=fp)
        errs.append((sl.relerr(np.asarray(c, dtype=float)[None], cw, np.abs(cw).max()), sl.relerr(np.asarray(f, dtype=float)[None], fw, np.abs(fw).max())))
    errs = np.array(errs)
    v = []
    for col, nm in ((0, "conc"), (1, "flux")):
        e = errs[:, col]
        for k in range(2):
            if e[k + 1] > floor and not e[k] / e[k + 1] >= 6.5:
                v.append({"sub": "field-order", "sig": "field-order/%s/%s" % (case["prec"], nm),
                          "msg": "%s, %s precision, %s regime: field error vs closed form %s for 16/32/64 layers - ratio %.2f < 6.5 on halving (rounding floor %.0e); case %s"
                          % (nm, case["prec"], case["regime"], ["%.2e" % x for x in e], e[k] / e[k + 1], floor, core.canon(case))})
                break
        if not e[-1] <= max(1e-3, floor):
            v.append({"sub": "field-order", "sig": "field-order/%s/%s-level" % (case["prec"], nm), "msg": "%s: error %.2e with 64 layers below the output height (expected <= 1e-3); case %s" % (nm, e[-1], core.canon(case))})
    return {"v": v[:3], "nt": True, "n": 3, "obs": {"errors": [["%.2e" % x for x in row] for row in errs.tolist()]}}


def case_cache_race(case):
    """the closed form through the result cache while two pool workers store their entries at the same time: analytic-mode
    footprints for two towers, each worker with its own cache object on one directory, every preemption-bounded interleaving
    of their file operations; every answer - the workers' and a later session's - is the closed form for ITS tower"""
    from vf import cacherace

    nx, ny, dom = 8, 6, (80.0, 90.0)
    pv = CONST[case["prof"]]
    z = ZL
    prof = tuple(np.full(len(z), x) for x in pv)
    lv = [2, 5]
    reqs, expect = {}, {}
    for label, mp in (("tower-a", (20.0, 30.0)), ("tower-b", (50.0, 45.0))):
        reqs[label] = dict(srf_flx=np.zeros((ny, nx)), z=z, profiles=prof, domain=dom, levels=lv, modes=(8, 6), halo=case["halo"], meas_pt=mp, footprint=True, analytic=True, precision="double")
        expect[label] = halfspace.solve(np.zeros((ny, nx)), dom, z[lv] - z[0], pv, (8, 6), case["halo"], meas_pt=mp, footprint=True)
    sl.solver()(**reqs["tower-a"])  # load the compiled kernels once, before the workers are forked
    return cacherace.solver_pair(reqs, expect, 1e-10, "analytic footprints of two towers (profile set %s, halo %r)" % (case["prof"], case["halo"]))


def run(ctx):
    os.environ["VERIF_SEED"] = str(ctx.seed)
    core.warm_numba()
    ctx.rule = (
        "closed-form: complete product of 4 constant profile sets x grids x halos x 3 mode counts x 3 measurement points x 2 modes x level sets (accepted combinations only), "
        "1-3 sources each; order: 4 profile sets x grids x column heights, ladder n=8..64 (thorough ..128), every resolved non-constant non-Nyquist wavenumber judged separately; "
        "non-trivial: every closed-form case; order cases with >= 4 resolved modes and at least one judged pair; evaluations counts solver executions"
    )
    callforms.run_solver_forms(ctx)
    errorpaths.run(ctx, case_closed, [c for c in closed_cases(ctx.tier) if not c['footprint'] and c['levels'] == [0, 2, 5]][:2])
    errorpaths.run_threaded(ctx, case_order, list(order_cases(ctx.tier))[:1], threads=(2, 4))
    ctx.run_cases(case_closed, closed_cases(ctx.tier), sub="closed-form")
    core.run_forked(ctx, case_cache_race, [{"prof": "aniso", "halo": 13.0}], sub="closed form through a cache two workers write at once (all interleavings, <= 2 preemptions)", nproc=4, timeout=1800)
    ctx.run_cases(case_mean_profile, [{"prof": p, "halo": h} for p in CONST for h in (0.0, 13.0)], sub="mean-profile", chunksize=1)
    ctx.run_cases(case_field_order, field_order_cases(ctx.tier), sub="order on returned fields, single and double precision", chunksize=1)
    res = ctx.run_cases(case_order, order_cases(ctx.tier), sub="order", chunksize=1)
    ctx.cov["order_mode_pairs_judged"] = int(sum(r.get("obs", {}).get("mode_pairs_judged", 0) for r in res))
    mr = [r["obs"]["min_ratio"] for r in res if r.get("obs", {}).get("min_ratio") is not None]
    ctx.cov["order_min_ratio"] = min(mr) if mr else None
    if not mr:
        raise core.HarnessError("no ladder produced a judged pair")
    if ctx.tier != "quick":
        # 45 s and ~3 GB: thorough tier only
        bigcases.run(ctx, "C05", sub="the size regime: more than 2^24 cells (analytic mode vs closed form by FFT)")
