"""C07 - the solution respects the PDE's symmetries: reflection, axis swap, similarity.

Per configuration (profiles with Kx != Ky != Kz and oblique wind, non-square grid,
mode count, footprint/dispersion; halo=0):
 mirror-x / mirror-y / mirror-xy : source index-reflected (i -> -i mod n), wind component negated, tower reflected
 transpose                        : source transposed; u<->v, Kx<->Ky, domain, modes, tower swapped
 length scaling s                 : domain, heights, tower, all K multiplied by s -> flux and conc unchanged
 velocity scaling s               : winds and all K multiplied by s -> flux unchanged, conc divided by s
for s in {1e-2, 0.5, 3.7, 1e3}.  Nyquist rows/columns (with truncated modes: the components at the cut-off, which are the
Nyquist components of the retained spectrum) are removed before comparing."""

import itertools
import os

import numpy as np

from vf import bigcases
from vf import core
from vf import callforms
from vf import errorpaths
from vf import solverlib as sl

PROPERTY = "C07"
LEVEL = "exploration"
MANIFEST = {
    "technique": "bounded-exhaustive enumeration of the symmetry group elements x scale lattice x configuration lattice; differential oracle (transformed call vs transformed output)",
    "text": "Every listed symmetry (3 reflections, transpose, 4 length scales, 4 velocity scales) is applied to every configuration of the lattice (anisotropic profile sets with oblique wind, non-square grids with dx != dy, mode counts, both modes, several tower cells and sources) and the transformed solve is compared with the transformed output after removing the Nyquist components the property excludes.",
    "note": "halo=0; tolerance 1e-9 of field maximum; Nyquist filter applied to both sides (without it the unchanged tree differs by ~3e-3, so the filter is necessary and sufficient).",
}

SCALES = (1e-9, 1e-6, 1e-2, 0.5, 3.7, 1e3, 1e7)  # from laboratory / light-wind twins to planetary ones: no dimensional constant may enter


def configs(tier):
    profs = ("const", "most_aniso", "mostm_s") if tier == "quick" else sl.PROFILE_SETS
    grids = sl.GRIDS[:1] if tier == "quick" else sl.GRIDS
    # [4, 64] / [64, 4]: a request exceeding the grid in ONE direction only (documented answer: all modes in both)
    modes = ("full", [4, 4], [4, 64], [64, 4]) if tier == "quick" else ("full", [4, 4], [6, 4], [64, 64], [4, 64], [64, 4])
    for p, g, m, fp in itertools.product(profs, grids, modes, (False, True)):
        yield {"prof": p, "grid": g[0], "dom": g[1], "modes": m, "footprint": fp}


def case_symmetry(case):
    S0 = sl.solver()
    seed = int(os.environ.get("VERIF_SEED", "0") or 0)
    nx, ny = case["grid"]
    dom = tuple(case["dom"])
    dx, dy = dom[0] / nx, dom[1] / ny
    z, prof = sl.build_profiles(case["prof"], 4)
    u, vv, Kx, Ky, Kz = prof
    levels = [2, 4]
    modes = sl.resolve_modes(case["modes"], nx, ny, dom, 0.0)
    eff = sl.effective_modes(modes, nx, ny)
    sl.pollute(nx, ny, dx, dy)
    sl.pollute(ny, nx, dy, dx)
    fp = case["footprint"]
    tol = 1e-9
    cnt = [0]
    rng = core.case_rng(seed, case)
    q = rng.standard_normal((ny, nx))
    towers = [(2, 1), (5, 4), (0, 0)] if fp else [(0, 0), (3, 2)]  # (i, j)

    def S(q, z, prof, dom, modes, mp):
        cnt[0] += 1
        _, c, f = S0(q, z, prof, dom, levels, modes=modes, halo=0.0, precision="double", footprint=fp, meas_pt=mp)
        return np.stack([np.asarray(c, dtype=float), np.asarray(f, dtype=float)])

    v = []
    worst = [0.0]

    def cmp(label, got, want, what):
        if label == "transpose":
            got, want = sl.drop_cutoff(got, eff[1], eff[0]), sl.drop_cutoff(want, eff[1], eff[0])
        else:
            got, want = sl.drop_cutoff(got, eff[0], eff[1]), sl.drop_cutoff(want, eff[0], eff[1])
        e = sl.relerr(got, want, max(np.abs(want).max(), 1e-300))
        worst[0] = max(worst[0], e)
        if not e <= tol:
            v.append({"sub": label, "sig": "%s/%s" % (label, "footprint" if fp else "dispersion"),
                      "msg": "%s: deviation %.2e of field maximum after Nyquist removal; config %s" % (what, e, core.canon(case))})

    ix = (-np.arange(nx)) % nx
    iy = (-np.arange(ny)) % ny
    for (ti, tj) in towers:
        mp = (ti * dx, tj * dy)
        base = S(q, z, prof, dom, modes, mp)
        if all(float(t).is_integer() for t in mp):
            # the same tower given with integer-typed coordinates (a legitimate way to write 20 m)
            cmp("int-coordinates", S(q, z, prof, (int(dom[0]), int(dom[1])), modes, tuple(int(t) for t in mp)), base, "tower and domain given as Python ints (tower cell %d,%d)" % (ti, tj))
        # reflections
        r = S(q[:, ix], z, (-u, vv, Kx, Ky, Kz), dom, modes, (((-ti) % nx) * dx, mp[1]))
        cmp("mirror-x", r, base[..., ix], "x-mirrored problem (tower cell %d,%d)" % (ti, tj))
        r = S(q[iy, :], z, (u, -vv, Kx, Ky, Kz), dom, modes, (mp[0], ((-tj) % ny) * dy))
        cmp("mirror-y", r, base[..., iy, :], "y-mirrored problem (tower cell %d,%d)" % (ti, tj))
        r = S(q[iy][:, ix], z, (-u, -vv, Kx, Ky, Kz), dom, modes, (((-ti) % nx) * dx, ((-tj) % ny) * dy))
        cmp("mirror-xy", r, base[..., iy, :][..., ix], "point-mirrored problem (tower cell %d,%d)" % (ti, tj))
        # transpose
        r = S(q.T.copy(), z, (vv, u, Ky, Kx, Kz), (dom[1], dom[0]), (modes[1], modes[0]), (mp[1], mp[0]))
        cmp("transpose", r, np.swapaxes(base, -1, -2), "axes exchanged (tower cell %d,%d)" % (ti, tj))
        for s in SCALES:
            r = S(q, z * s, (u, vv, Kx * s, Ky * s, Kz * s), (dom[0] * s, dom[1] * s), modes, (mp[0] * s, mp[1] * s))
            cmp("length-scale", r, base, "all lengths and diffusivities x %g (tower cell %d,%d)" % (s, ti, tj))
            r = S(q, z, (u * s, vv * s, Kx * s, Ky * s, Kz * s), dom, modes, mp)
            want = base.copy()
            want[0] /= s
            # compare flux and s*conc on a common scale
            cmp("velocity-scale-flux", r[1], base[1], "winds and diffusivities x %g: flux (tower cell %d,%d)" % (s, ti, tj))
            cmp("velocity-scale-conc", r[0] * s, base[0], "winds and diffusivities x %g: conc x %g (tower cell %d,%d)" % (s, s, ti, tj))
    return {"v": v[:8], "nt": True, "n": cnt[0], "obs": {"worst_rel_err": worst[0], "towers": len(towers)}}


def halo_configs(tier):
    profs = ("most_aniso", "mostm_s") if tier == "quick" else sl.PROFILE_SETS
    halos = (None, 13.0, 20.0) if tier == "quick" else (None, 13.0, 20.0, 30.0, 45.0, 7.0)
    # only sizes that are odd in BOTH directions: their padded grids have no Nyquist component, which could not be
    # filtered out of a cropped field (with even padded sizes the unchanged tree differs by ~2e-2 there - the
    # property's Nyquist carve-out)
    grids = [((7, 5), (70.0, 75.0)), ((5, 7), (75.0, 70.0))] if tier == "quick" else [((7, 5), (70.0, 75.0)), ((5, 7), (75.0, 70.0)), ((9, 7), (90.0, 105.0)), ((5, 5), (60.0, 40.0))]
    for p, g, h, fp in itertools.product(profs, grids, halos, (True, False)):
        yield {"prof": p, "grid": g[0], "dom": g[1], "halo": h, "modes": [64, 64], "footprint": fp}
    for p, fp in itertools.product(profs, (True, False)):
        # 7x5 interior, dx=10, dy=7, halo 15 -> pads (1,2): the PADDED grid is square (9x9) while the interior is not,
        # so the transposed problem reuses the same padded shape with another interior
        yield {"prof": p, "grid": (7, 5), "dom": (70.0, 35.0), "halo": 15.0, "modes": [64, 64], "footprint": fp}
        # 7x3 cells over 80 m x 80 m, halo 80 m = exactly 7 dx = exactly 3 dy (also the default halo): both pad widths sit on a
        # rounding knife-edge (int(80/dx) = 7, 80 // dx = 6); the transposed problem must pad the transposed way
        yield {"prof": p, "grid": (7, 3), "dom": (80.0, 80.0), "halo": 80.0, "modes": [64, 64], "footprint": fp}
        yield {"prof": p, "grid": (7, 3), "dom": (80.0, 80.0), "halo": None, "modes": [64, 64], "footprint": fp}
        # dx=2.5, dy=7.5, halo 8.9 -> padded offsets 7.5 m (fractional) with whole-metre tower coordinates
        yield {"prof": p, "grid": (7, 5), "dom": (17.5, 37.5), "halo": 8.9, "modes": [64, 64], "footprint": fp}


def case_halo_symmetry(case):
    """mirror images with a zero-flux halo: the padded periodic domain is symmetric about the CENTRE of the inner
    domain, so the mirror is the flip i -> n-1-i (tower x -> (n-1)dx - x); transposition as before."""
    S0 = sl.solver()
    seed = int(os.environ.get("VERIF_SEED", "0") or 0)
    nx, ny = case["grid"]
    dom = tuple(case["dom"])
    dx, dy = dom[0] / nx, dom[1] / ny
    z, prof = sl.build_profiles(case["prof"], 4)
    u, vv, Kx, Ky, Kz = prof
    levels = [2, 4]
    halo = case["halo"]
    nxe, nye, px, py = sl.padded_size(nx, ny, dom, halo)
    modes = sl.resolve_modes(case["modes"], nx, ny, dom, halo)
    fp = case["footprint"]
    rng = core.case_rng(seed, case)
    q = rng.standard_normal((ny, nx))
    cnt = [0]

    def S(q, prof, dom, modes, mp, halo=halo):
        cnt[0] += 1
        _, c, f = S0(q, z, prof, dom, levels, modes=modes, halo=halo, precision="double", footprint=fp, meas_pt=mp)
        return np.stack([np.asarray(c, dtype=float), np.asarray(f, dtype=float)])

    v = []
    worst = [0.0]
    even = (nxe % 2 == 0, nye % 2 == 0)

    def cmp(label, got, want, what):
        if even[0] or even[1]:
            raise core.HarnessError("halo symmetry case with an even padded size")
        tol = 1e-9
        e = sl.relerr(got, want, max(np.abs(want).max(), 1e-300))
        worst[0] = max(worst[0], e)
        if not e <= tol:
            v.append({"sub": label, "sig": "%s/%s" % (label, "footprint" if fp else "dispersion"), "msg": "%s: deviation %.2e of field maximum (tol %.0e); config %s" % (what, e, tol, core.canon(case))})

    towers = [(2, 1), (nx - 2, ny - 1), (min(4, nx - 1), min(2, ny - 1))] if fp else [(0, 0)]
    for (ti, tj) in towers:
        mp = (ti * dx, tj * dy) if fp else (0.0, 0.0)
        base = S(q, prof, dom, modes, mp)
        r = S(q.T.copy(), (vv, u, Ky, Kx, Kz), (dom[1], dom[0]), (modes[1], modes[0]), (mp[1], mp[0]))
        cmp("transpose-halo", r, np.swapaxes(base, -1, -2), "axes exchanged with halo %r (tower cell %d,%d)" % (halo, ti, tj))
        if fp and all(float(t).is_integer() for t in mp):
            cmp("int-coordinates-halo", S(q, prof, dom, modes, tuple(int(t) for t in mp)), base, "tower given as Python ints with halo %r (tower cell %d,%d)" % (halo, ti, tj))
        mpx = ((nx - 1 - ti) * dx, mp[1]) if fp else mp
        mpy = (mp[0], (ny - 1 - tj) * dy) if fp else mp
        r = S(q[:, ::-1].copy(), (-u, vv, Kx, Ky, Kz), dom, modes, mpx)
        cmp("mirror-x-halo", r, base[..., ::-1], "x-mirrored problem with halo %r (tower cell %d,%d)" % (halo, ti, tj))
        r = S(q[::-1, :].copy(), (u, -vv, Kx, Ky, Kz), dom, modes, mpy)
        cmp("mirror-y-halo", r, base[..., ::-1, :], "y-mirrored problem with halo %r (tower cell %d,%d)" % (halo, ti, tj))
    return {"v": v[:6], "nt": True, "n": cnt[0], "obs": {"worst_rel_err": worst[0], "padded": [nxe, nye]}}


def case_interface_similarity(case):
    """length similarity through the configuration-driven interface, on ONE configuration object that is rescaled in place
    between the runs (domain, tower height and position, roughness length, Obukhov length; options the user never set
    stay unset), compared with the run before the rescaling"""
    import warnings

    from bldfm.config_parser import parse_config_dict
    from bldfm.interface import run_bldfm_single

    s = case["scale"]
    cfg = parse_config_dict({
        "domain": {"nx": 8, "ny": 6, "xmax": 80.0, "ymax": 90.0, "nz": 4, "modes": [8, 6], **({"halo": case["halo"]} if case["halo"] is not None else {})},
        "towers": [{"name": "t", "lat": 0.0, "lon": 0.0, "z_m": 5.0}],
        "met": {"z0": 0.05, "mol": -50.0, "wind_speed": 3.0, "wind_dir": 200.0},
        "solver": {"footprint": case["footprint"], "precision": "double", "closure": "MOST"},
    })
    cfg.towers[0].x, cfg.towers[0].y = 30.0, 45.0
    with warnings.catch_warnings():
        warnings.simplefilter("ignore")
        r1 = run_bldfm_single(cfg, cfg.towers[0])
        # the user rescales what the user set
        cfg.domain.xmax *= s
        cfg.domain.ymax *= s
        if case["halo"] is not None:
            cfg.domain.halo *= s
        cfg.towers[0].z_m *= s
        cfg.towers[0].x *= s
        cfg.towers[0].y *= s
        cfg.met.z0 *= s
        cfg.met.mol *= s
        r2 = run_bldfm_single(cfg, cfg.towers[0])
    v = []
    # K = kappa u* z scales with the lengths, u* and the wind do not: flux and concentration are unchanged
    for nm in ("flx", "conc"):
        e = sl.relerr(r2[nm], r1[nm], max(np.abs(r1[nm]).max(), 1e-300))
        if not e <= 1e-8:
            v.append({"sub": "interface-similarity", "sig": "interface-similarity/%s" % nm, "msg": "%s changes by %.2e of its maximum when one configuration object is rescaled in place by %g and run again; case %s" % (nm, e, s, core.canon(case))})
    return {"v": v, "nt": True, "n": 2}


def case_cached_mirror(case):
    """mirror symmetry of footprints served through ONE attached result cache, in sessions in which the stored entry of one
    of the two mirror-image problems was damaged on disk (interrupted run) before the session: problems P and its x- (or y-)
    mirror image P' are requested in every order of a short session; each answer must be the mirror image of the other
    problem's uncached answer"""
    import shutil

    from bldfm.cache import GreensFunctionCache

    S0 = sl.solver()
    nx, ny, dom = 8, 6, (80.0, 90.0)
    dx, dy = dom[0] / nx, dom[1] / ny
    z, prof = sl.build_profiles("most_aniso", 4)
    u, vv, Kx, Ky, Kz = prof
    q = np.zeros((ny, nx))
    ti, tj = 2, 1
    if case["axis"] == "x":
        profm, mpm, flip = (-u, vv, Kx, Ky, Kz), (((-ti) % nx) * dx, tj * dy), (lambda a: a[..., (-np.arange(nx)) % nx])
    else:
        profm, mpm, flip = (u, -vv, Kx, Ky, Kz), (ti * dx, ((-tj) % ny) * dy), (lambda a: a[..., (-np.arange(ny)) % ny, :])
    kw = dict(modes=(8, 6), halo=0.0, precision="double", footprint=True)
    req = {"P": dict(kw, profiles=prof, meas_pt=(ti * dx, tj * dy)), "M": dict(kw, profiles=profm, meas_pt=mpm)}
    ref = {}
    for k, r in req.items():
        _, c, f = S0(q, z, r["profiles"], dom, [2, 4], **{kk: vv_ for kk, vv_ in r.items() if kk != "profiles"})
        ref[k] = np.stack([np.asarray(c, dtype=float), np.asarray(f, dtype=float)])
    cdir = os.path.join(os.getcwd(), "cm_%s" % core.case_hash(case))
    shutil.rmtree(cdir, ignore_errors=True)
    v = []
    n = 2
    try:
        # an earlier session stored the entry named in case["damaged"]; it was then cut short on disk
        r = req[case["damaged"]]
        S0(q, z, r["profiles"], dom, [2, 4], cache=GreensFunctionCache(cdir), **{kk: vv_ for kk, vv_ in r.items() if kk != "profiles"})
        for fn_ in os.listdir(cdir):
            pth = os.path.join(cdir, fn_)
            data = open(pth, "rb").read()
            with open(pth, "wb") as fh:
                fh.write(data[: (0 if case["how"] == "zero" else len(data) // 2)])
        cache = GreensFunctionCache(cdir)
        for pos, k in enumerate(case["session"]):
            r = req[k]
            n += 1
            _, c, f = S0(q, z, r["profiles"], dom, [2, 4], cache=cache, **{kk: vv_ for kk, vv_ in r.items() if kk != "profiles"})
            got = np.stack([np.asarray(c, dtype=float), np.asarray(f, dtype=float)])
            other = "M" if k == "P" else "P"
            want = flip(ref[other])
            e = sl.relerr(sl.drop_cutoff(got, 8, 6), sl.drop_cutoff(want, 8, 6), max(np.abs(want).max(), 1e-300))
            if not e <= 1e-9:
                v.append({"sub": "cached-mirror", "sig": "cached-mirror/%s" % case["axis"], "msg": "session %s through one cache (entry of %s damaged beforehand: %s): answer %d (problem %s) is not the %s-mirror image of the other problem's footprint (deviation %.2e of the maximum)"
                          % ("".join(case["session"]), case["damaged"], case["how"], pos, k, case["axis"], e)})
                break
    finally:
        shutil.rmtree(cdir, ignore_errors=True)
    return {"v": v, "nt": True, "n": n}


def run(ctx):
    os.environ["VERIF_SEED"] = str(ctx.seed)
    core.warm_numba()
    ctx.rule = (
        "complete product: profile sets x grids x mode counts x {dispersion, footprint}; per configuration 2-3 tower cells x "
        "{mirror-x, mirror-y, mirror-xy, transpose, 4 length scales, 4 velocity scales}; configurations are distinct lattice points; evaluations counts solver executions"
    )
    callforms.run_solver_forms(ctx)
    ctx.run_cases(case_symmetry, configs(ctx.tier), sub="symmetry", chunksize=1)
    errorpaths.run_threaded(ctx, case_symmetry, [c for c in configs(ctx.tier) if c['prof'] == 'most_aniso' and c['modes'] == 'full'][:2], threads=(2, 8))
    ctx.run_cases(case_halo_symmetry, halo_configs(ctx.tier), sub="symmetry-with-halo", chunksize=1)
    ctx.run_cases(case_cached_mirror, [{"axis": ax, "damaged": d_, "how": h_, "session": list(ss)} for ax in ("x", "y") for d_ in ("P", "M") for h_ in ("zero", "half") for ss in itertools.product("PM", repeat=4) if len(set(ss)) == 2],
                  sub="mirror symmetry through a cache with a damaged entry")
    ctx.run_cases(case_interface_similarity, [{"scale": s, "halo": h, "footprint": fp} for s, h, fp in itertools.product((0.5, 8.0), (None, 20.0, 0.0), (True, False))], sub="interface-similarity")
    bigcases.run(ctx, "C07")
