"""C03 - level-by-level flux conservation, mean-concentration profile, unit
footprint mass, halo == explicit zero padding.

(a) conservation: on the whole periodic domain (halo=0, incl. explicitly padded
    sources) at EVERY node of the column: mean(flux) == mean(source) and
    mean(conc) == bg - mean(source)*R(z), where R is compared with the exact
    integral of dz/Kz (adaptive quadrature of the continuous Kz) and must be at
    least as accurate as twice the trapezoid rule's error on the given grid
    (exact to rounding for constant Kz).
(b) unit mass: footprint weights over the whole periodic domain sum to one at
    every node, for every on-grid tower position.
(c) halo: call(halo=h) == crop(call(np.pad(source), enlarged domain, halo=0,
    tower shifted by the pad)) in footprint and dispersion mode."""

import itertools
import os

import numpy as np

from vf import bigcases
from vf import core
from vf import callforms
from vf import errorpaths
from vf import solverlib as sl

PROPERTY = "C03"
LEVEL = "exploration"
MANIFEST = {
    "technique": "bounded-exhaustive enumeration over the configuration lattice (profiles x grids x pads/halos x mode counts x backgrounds x every column node x impulse basis / every tower cell), algebraic and differential oracles",
    "text": "Conservation and the mean-concentration law are checked at every node of the column for the complete impulse basis (which, by linearity, decides them for all sources) on plain and explicitly padded periodic domains; unit footprint mass for every on-grid tower cell; halo-equals-padding by a differential call for every halo of the lattice (commensurate, half-commensurate, incommensurate, default) in both modes.",
    "note": "The resistance is compared with quad(1/Kz) of the harness' own continuous Kz with an allowance of twice the trapezoid error on the given grid (any equally or more accurate quadrature passes). Tolerances: 1e-9 of field maximum (double). Lattice values only.",
}

BGS = (0.0, 2.5, -4.0)


def cons_cases(tier):
    profs = ("const", "most_aniso") if tier == "quick" else sl.PROFILE_SETS
    grids = sl.GRIDS[:1] if tier == "quick" else sl.GRIDS
    pads = ((0, 0), (2, 1), (3, 2)) if tier == "quick" else ((0, 0), (2, 1), (3, 2), (1, 0), (9, 6))
    modes = ("full", [4, 4]) if tier == "quick" else ("full", [4, 4], [64, 64], [6, 4])
    precs = ("double",) if tier == "quick" else ("double", "single")
    for p, g, pad, m, pr in itertools.product(profs, grids, pads, modes, precs):
        yield {"prof": p, "grid": g[0], "dom": g[1], "pad": list(pad), "modes": m, "prec": pr}
    # analytic mode (constant profiles): the same mean laws, the trapezoid rule being exact
    for pad, m in itertools.product(((0, 0), (2, 1)), ("full", [4, 4])):
        yield {"prof": "const", "grid": sl.GRIDS[0][0], "dom": sl.GRIDS[0][1], "pad": list(pad), "modes": m, "prec": "double", "analytic": True}
    for k, (g, pad) in enumerate(itertools.product(sl.DEGENERATE_GRIDS, ((0, 0), (2, 1)))):
        yield {"prof": profs[k % len(profs)], "grid": g[0], "dom": g[1], "pad": list(pad), "modes": [64, 64], "prec": "double"}
    # odd sizes: only clamped mode counts are accepted
    for k, (g, pad) in enumerate(itertools.product(sl.ODD_GRIDS, ((0, 0), (2, 1)))):
        for p in (profs if tier != "quick" else (profs[k % len(profs)],)):
            yield {"prof": p, "grid": g[0], "dom": g[1], "pad": list(pad), "modes": [64, 64], "prec": "double"}


def case_conservation(case):
    S = sl.solver()
    seed = int(os.environ.get("VERIF_SEED", "0") or 0)
    nx, ny = case["grid"]
    dx, dy = case["dom"][0] / nx, case["dom"][1] / ny
    px, py = case["pad"]
    nxe, nye = nx + 2 * px, ny + 2 * py
    dom = (nxe * dx, nye * dy)
    sl.pollute(nxe, nye, dx, dy)
    z, prof = sl.build_profiles(case["prof"], 4)
    nz = len(z)
    # every node of the column, requested top-down on odd lattice points (the surface node is then the LAST slot)
    levels = list(range(nz)) if (nxe + nye + len(case["prof"])) % 2 == 0 else list(range(nz - 1, -1, -1))
    if (nxe + 2 * nye) % 3 == 0:
        levels = [nz // 2, nz - 1] + levels  # two nodes requested twice (the first and a later slot hold the same node)
    modes = (nxe, nye) if case["modes"] == "full" else tuple(case["modes"])
    prec = case["prec"]
    tol = 1e-9 if prec == "double" else 2e-5
    order = np.argsort(levels)
    Rex = sl.resistance_exact(case["prof"], z)[levels]
    Rtr = sl.resistance_trapezoid(z, prof[4])[levels]
    allow = 2.0 * np.abs(Rtr - Rex) + tol * Rex.max()
    rng = core.case_rng(seed, case)
    sources = []
    for j, i in itertools.product(range(ny), range(nx)):
        q = np.zeros((nye, nxe))
        q[py + j, px + i] = 1.0
        sources.append(("impulse(%d,%d)" % (j, i), q))
    for name, f in list(sl.fields(rng, ny, nx).items()) + list(sl.scaled_fields(rng, ny, nx).items()):
        sources.append((name, np.pad(f, ((py, py), (px, px)))))
    v = []
    worst_f = worst_c = 0.0
    for k, (name, q) in enumerate(sources):
        bg = BGS[k % len(BGS)]
        _, c, f = S(q, z, prof, dom, levels, modes=modes, halo=0.0, srf_bg_conc=bg, precision=prec, analytic=bool(case.get("analytic")))
        qm = q.mean()
        fm = f.reshape(len(levels), -1).mean(axis=1)
        cm = c.reshape(len(levels), -1).mean(axis=1)
        scale = max(abs(qm), np.abs(q).max() / q.size)
        if prec == "single":  # storage rounding is relative to the FIELD maximum (cf. C12), not to its mean
            scale = max(scale, float(np.abs(f).max()))
        ef = np.max(np.abs(fm - qm)) / scale
        worst_f = max(worst_f, ef)
        if not ef <= tol:
            l = int(np.argmax(np.abs(fm - qm)))
            v.append({"sub": "flux-mean", "sig": "conservation/flux-mean",
                      "msg": "source %s: mean flux at node %d is %.12g, mean source %.12g (rel %.2e); config %s" % (name, l, fm[l], qm, ef, core.canon(case))})
        # mean concentration: bg - qm*R(z)
        Rimpl = (bg - cm) / qm if qm != 0 else None
        if Rimpl is not None:
            dev = np.abs(Rimpl - Rex)
            worst_c = max(worst_c, float(np.max(dev / np.maximum(Rex, np.sort(Rex)[1]))))
            # rounding of the stored field (relative to its own maximum) divided by a mean that may be small against that maximum
            rnd = (2e-5 if prec == "single" else 1e-9) * float(np.abs(c).max()) / abs(qm)
            bad = np.where(~(dev <= allow + rnd + 1e-9 * abs(bg / qm) + (2e-5 * abs(bg / qm) if prec == "single" else 0)))[0]
            if len(bad):
                l = int(bad[0])
                v.append({"sub": "conc-mean", "sig": "conservation/conc-mean",
                          "msg": "source %s bg %.3g: (bg-mean conc)/mean flux at node %d = %.10g, exact resistance %.10g, trapezoid %.10g (deviation %.2e > allowance %.2e); config %s"
                          % (name, bg, l, Rimpl[l], Rex[l], Rtr[l], dev[l], allow[l], core.canon(case))})
        # background must not change the flux (cheap extra, same call without bg)
    return {"v": v[:6], "nt": True, "n": len(sources), "obs": {"worst_flux_mean_err": worst_f, "worst_resistance_rel_dev": worst_c, "nodes": nz}}


def case_int_column(case):
    """an idealised column written in whole numbers and handed over as INTEGER arrays (heights, winds, diffusivities,
    source, background) must give what the same column gives as floats"""
    S = sl.solver()
    nx, ny = 6, 4
    z = np.array([1, 2, 4, 7, 11, 16])
    prof = (np.array([1, 2, 2, 3, 3, 4]), np.array([1, 1, 0, -1, -1, -2]), np.array([1, 2, 3, 4, 5, 6]), np.array([2, 2, 3, 3, 4, 4]), np.array([1, 2, 3, 4, 5, 6]))
    q = (np.arange(ny * nx).reshape(ny, nx) % 5 - 1)
    levels = list(range(len(z)))
    v = []
    n = 0
    for an, fp in itertools.product((False, True), (False, True)):
        kw = dict(modes=(6, 4), halo=case["halo"], precision="double", analytic=an, footprint=fp, meas_pt=(20, 15) if fp else (0, 0), srf_bg_conc=3)
        fkw = dict(kw, meas_pt=tuple(float(t) for t in kw["meas_pt"]), srf_bg_conc=3.0)
        _, cf, ff = S(q.astype(float), z.astype(float), tuple(p.astype(float) for p in prof), (60.0, 60.0), levels, **fkw)
        for which in ("all", "z+Kz", "z", "profiles", "source"):
            zi = z if which in ("all", "z+Kz", "z") else z.astype(float)
            pi = tuple(p if (which in ("all", "profiles") or (which == "z+Kz" and k == 4)) else p.astype(float) for k, p in enumerate(prof))
            qi = q if which in ("all", "source") else q.astype(float)
            try:
                _, ci, fi = S(qi, zi, pi, (60, 60) if which == "all" else (60.0, 60.0), levels, **(kw if which == "all" else fkw))
            except Exception as e:
                v.append({"sub": "integer-column", "sig": "integer-column/raises", "msg": "integer-typed %s (analytic=%s, footprint=%s, halo=%r): raises %s: %s" % (which, an, fp, case["halo"], type(e).__name__, str(e)[:120])})
                continue
            n += 1
            for nm, a, b in (("conc", ci, cf), ("flux", fi, ff)):
                e = sl.relerr(a, b, max(np.abs(b).max(), 1e-300))
                if not e <= 1e-12:
                    lm = np.abs(np.asarray(a).reshape(len(z), -1).mean(axis=1) - np.asarray(b).reshape(len(z), -1).mean(axis=1)).max()
                    v.append({"sub": "integer-column", "sig": "integer-column/%s" % which, "msg": "integer-typed %s (analytic=%s, footprint=%s, halo=%r): %s differs from the float column by %.2e of the maximum (level means differ by %.3g)" % (which, an, fp, case["halo"], nm, e, lm)})
    return {"v": v[:6], "nt": n, "key": core.canon(case), "n": n + 4}


def case_unitmass(case):
    S = sl.solver()
    nx, ny = case["grid"]
    dx, dy = case["dom"][0] / nx, case["dom"][1] / ny
    px, py = case["pad"]
    nxe, nye = nx + 2 * px, ny + 2 * py
    dom = (nxe * dx, nye * dy)
    sl.pollute(nxe, nye, dx, dy)
    z, prof = sl.build_profiles(case["prof"], 4)
    nz = len(z)
    levels = list(range(nz))
    modes = (nxe, nye) if case["modes"] == "full" else tuple(case["modes"])
    prec = case["prec"]
    tol = 1e-9 if prec == "double" else 2e-5
    Rex = sl.resistance_exact(case["prof"], z)
    Rtr = sl.resistance_trapezoid(z, prof[4])
    allow = 2.0 * np.abs(Rtr - Rex) + tol * Rex[-1]
    v = []
    worst = 0.0
    q0 = np.full((nye, nxe), np.nan)  # values must not matter in footprint mode
    n = 0
    for j, i in itertools.product(range(nye), range(nxe)):
        if (nxe * nye > 60) and not (j % 3 == 0 and i % 4 == 0):
            continue
        _, c, f = S(q0, z, prof, dom, levels, modes=modes, halo=0.0, meas_pt=(i * dx, j * dy), footprint=True, precision=prec)
        n += 1
        sf = f.reshape(nz, -1).sum(axis=1)
        e = float(np.max(np.abs(sf - 1.0)))
        worst = max(worst, e)
        if not e <= tol:
            l = int(np.argmax(np.abs(sf - 1.0)))
            v.append({"sub": "unit-mass", "sig": "unit-mass/flux",
                      "msg": "tower cell (%d,%d): footprint weights at node %d sum to %.12g, not 1; config %s" % (j, i, l, sf[l], core.canon(case))})
        sc = -c.reshape(nz, -1).sum(axis=1)
        dev = np.abs(sc - Rex)
        if not np.all(dev <= allow):
            l = int(np.argmax(dev - allow))
            v.append({"sub": "unit-mass-conc", "sig": "unit-mass/conc",
                      "msg": "tower cell (%d,%d): -sum(conc Green's function) at node %d = %.10g, exact resistance %.10g (trapezoid %.10g); config %s" % (j, i, l, sc[l], Rex[l], Rtr[l], core.canon(case))})
    return {"v": v[:6], "nt": True, "n": n, "obs": {"worst_mass_err": worst, "towers": n}}


def halo_cases(tier):
    profs = ("const", "most_aniso") if tier == "quick" else sl.PROFILE_SETS
    grids = sl.GRIDS[:1] if tier == "quick" else sl.GRIDS
    halos = [h for h in sl.HALOS if h != 0.0] + ([] if tier == "quick" else [52.0, 100.0])
    modes = ("full", [4, 4]) if tier == "quick" else ("full", [4, 4], [64, 64], [6, 4])
    precs = ("double",) if tier == "quick" else ("double", "single")
    for p, g, m, pr, fp in itertools.product(profs, grids, modes, precs, (True, False)):
        hs = [h for h in halos if m != "full"] or None
        if m == "full":
            # 'full' means another mode count for every halo: one case per halo
            for h in halos:
                yield {"prof": p, "grid": g[0], "dom": g[1], "halo": h, "modes": m, "prec": pr, "footprint": fp}
        else:
            yield {"prof": p, "grid": g[0], "dom": g[1], "halos": hs, "modes": m, "prec": pr, "footprint": fp}
    if tier == "quick":
        g = sl.GRIDS[1]
        for h, fp in itertools.product(halos, (True, False)):
            yield {"prof": "mostm_s", "grid": g[0], "dom": g[1], "halo": h, "modes": "full", "prec": "single", "footprint": fp}
    for k, (g, h, fp) in enumerate(itertools.product(sl.ODD_GRIDS, (None, 13.0, 20.0), (True, False))):
        for p in (profs if tier != "quick" else (profs[k % len(profs)],)):
            yield {"prof": p, "grid": g[0], "dom": g[1], "halo": h, "modes": [64, 64], "prec": "double", "footprint": fp}


def case_halo(case):
    if "halos" in case:
        # consecutive cases of one process differ ONLY in the halo (same profiles, grid, modes, sources, towers)
        out = {"v": [], "n": 0, "worst": 0.0}
        # phase 1: the halo calls of ALL halos back to back (item by item, halo innermost), phase 2: the padded twins
        base = {k: v for k, v in case.items() if k != "halos"}
        pre = {}
        its = None
        for idx in range(64):
            for h in case["halos"]:
                got = case_halo(dict(base, halo=h, _only_first=idx))
                if got is None:
                    break
                pre[(repr(h), idx)] = got
            else:
                continue
            break
        for h in case["halos"]:
            r = case_halo(dict(base, halo=h, _first={i: pre[(repr(h), i)] for (hh, i) in pre if hh == repr(h)}))
            out["v"] += r["v"]
            out["n"] += r["n"]
            out["worst"] = max(out["worst"], r["obs"]["worst_rel_err"])
        return {"v": out["v"][:6], "nt": True, "n": out["n"], "obs": {"worst_rel_err": out["worst"], "halos": case["halos"]}}
    S = sl.solver()
    seed = int(os.environ.get("VERIF_SEED", "0") or 0)
    nx, ny = case["grid"]
    dom = tuple(case["dom"])
    dx, dy = dom[0] / nx, dom[1] / ny
    halo = case["halo"]
    nxe, nye, px, py = sl.padded_size(nx, ny, dom, halo)
    dome = (nxe * dx, nye * dy)
    sl.pollute(nxe, nye, dx, dy)
    z, prof = sl.build_profiles(case["prof"], 4)
    levels = [0, 2, 4, len(z) - 1]
    modes = (nxe, nye) if case["modes"] == "full" else tuple(case["modes"])
    prec = case["prec"]
    tol = 1e-9 if prec == "double" else 2e-5
    fp = case["footprint"]
    pub = {k: v for k, v in case.items() if not k.startswith("_")}
    rng = core.case_rng(seed, {k: v for k, v in pub.items() if k != "halo"})
    v = []
    worst = 0.0
    n = 0
    if fp:
        items = [("tower(%d,%d)" % (j, i), np.zeros((ny, nx)), (i * dx, j * dy), 0.0) for j, i in itertools.product(range(ny), range(nx))]
    else:
        fl = sl.fields(rng, ny, nx)
        items = [(k, q, (0.0, 0.0), BGS[n_ % 3]) for n_, (k, q) in enumerate(fl.items())]
        items += [("impulse+shift", sl.impulse(ny, nx, 1, 2), (3 * dx, 2 * dy), 2.5), ("random+shift", fl["random"], ((nx - 1) * dx, 1 * dy), -4.0)]
        items += [("impulse(%d,%d)" % (j, i), sl.impulse(ny, nx, j, i), (0.0, 0.0), 0.0) for j, i in ((0, 0), (ny - 1, nx - 1), (2, nx - 2))]
    # first ALL halo calls one after the other (consecutive solves that differ only in source / tower), then the
    # explicitly padded twins: an interleaved order would hide state carried from one halo call to the next
    if "_only_first" in case:  # phase 1 of the grouped mode: just the halo call of item number idx
        idx = case["_only_first"]
        if idx >= len(items):
            return None
        name, q, mp, bg = items[idx]
        return S(q, z, prof, dom, levels, halo=halo, meas_pt=mp, modes=modes, footprint=fp, precision=prec, srf_bg_conc=bg)
    first = {}
    for idx, (name, q, mp, bg) in enumerate(items):
        kw = dict(modes=modes, footprint=fp, precision=prec, srf_bg_conc=bg)
        first[name] = case["_first"][idx] if "_first" in case else S(q, z, prof, dom, levels, halo=halo, meas_pt=mp, **kw)
    for name, q, mp, bg in items:
        kw = dict(modes=modes, footprint=fp, precision=prec, srf_bg_conc=bg)
        _, ca, fa = first[name]
        qp = np.pad(q, ((py, py), (px, px)))
        # dispersion mode treats meas_pt == (0,0) as "no re-centring": keep that on the padded side too
        mpb = mp if (not fp and mp == (0.0, 0.0)) else (mp[0] + px * dx, mp[1] + py * dy)
        _, cb, fb = S(qp, z, prof, dome, levels, halo=0.0, meas_pt=mpb, **kw)
        n += 2
        cb = cb[:, py:nye - py, px:nxe - px]
        fb = fb[:, py:nye - py, px:nxe - px]
        for nm, a, b in (("flux", fa, fb), ("concentration", ca, cb)):
            e = sl.relerr(a, b, scale=max(np.abs(b).max(), 1e-300)) if a.shape == b.shape else float("inf")
            worst = max(worst, e)
            if not e <= tol:
                v.append({"sub": "halo-padding", "sig": "halo-padding/%s/%s" % ("footprint" if fp else "dispersion", nm),
                          "msg": "%s %s: halo=%r (pad %d,%d cells) differs from explicit zero padding by %.2e of the field maximum (shapes %s vs %s); config %s"
                          % (name, nm, halo, px, py, e, a.shape, b.shape, core.canon(pub))})
    return {"v": v[:6], "nt": True, "n": n, "obs": {"worst_rel_err": worst, "pad_cells": [px, py]}}


def fine_cases(tier):
    nls = (2048,) if tier == "quick" else (2048, 8192)
    for nlay, prec, bg, p in itertools.product(nls, ("single", "double"), (0.0, 400.0, -3.0e4), ("most_u", "const")):
        yield {"nlay": nlay, "prec": prec, "bg": bg, "prof": p}


def case_fine_column(case):
    """Conservation on a column of thousands of layers (a user refining the vertical grid), default single and double
    precision, with a background that dwarfs the flux-induced deficit.  The mean concentration at a node is
    bg - mean(source) * (trapezoid resistance of the given grid), which the harness sums in float64; storage rounding
    allows a few units in the last place of the RESULT's precision, independent of the number of layers."""
    S = sl.solver()
    nx, ny, dom = 8, 6, (80.0, 90.0)
    z, prof = sl.build_profiles(case["prof"], case["nlay"])
    nz = len(z)
    levels = [0, nz // 3, nz // 2, nz - 1]
    prec, bg = case["prec"], case["bg"]
    ulp = 1.2e-7 if prec == "single" else 2.3e-16
    Rtr = sl.resistance_trapezoid(z, prof[4])[levels]
    v = []
    worst = 0.0
    rng = np.random.default_rng(nz)
    for name, q in (("impulse", sl.impulse(ny, nx, 2, 3)), ("dense", rng.uniform(0.5, 1.5, (ny, nx)))):
        _, c, f = S(q, z, prof, dom, levels, modes=(4, 4), halo=0.0, srf_bg_conc=bg, precision=prec)
        qm = q.mean()
        cm = np.asarray(c, dtype=float).reshape(len(levels), -1).mean(axis=1)
        fm = np.asarray(f, dtype=float).reshape(len(levels), -1).mean(axis=1)
        want = bg - qm * Rtr
        scale = abs(bg) + abs(qm) * Rtr.max()
        e = float(np.max(np.abs(cm - want)) / scale)
        ef = float(np.max(np.abs(fm - qm)) / max(abs(qm), float(np.abs(f).max())))
        worst = max(worst, e / ulp, ef / ulp)
        if not e <= 16 * ulp + 1e-12:
            l = int(np.argmax(np.abs(cm - want)))
            v.append({"sub": "fine-column", "sig": "fine-column/conc-mean/%s" % prec,
                      "msg": "%s source, %d layers, bg %g, %s: mean concentration at node %d is %.10g, bg - mean flux x resistance = %.10g (off by %.1f units in the last place of the result precision, allowed 16); case %s"
                      % (name, nz - 1, bg, prec, levels[l], cm[l], want[l], e / ulp, core.canon(case))})
        if not ef <= 16 * ulp + 1e-12:
            v.append({"sub": "fine-column", "sig": "fine-column/flux-mean/%s" % prec,
                      "msg": "%s source, %d layers, %s: mean flux deviates from the mean source by %.1f units in the last place (allowed 16); case %s" % (name, nz - 1, prec, ef / ulp, core.canon(case))})
    return {"v": v[:4], "nt": True, "n": 2, "obs": {"worst_ulps": round(worst, 2), "layers": nz - 1}}


def run(ctx):
    os.environ["VERIF_SEED"] = str(ctx.seed)
    core.warm_numba()
    ctx.rule = (
        "complete product of the lattices listed in the module docstring; per conservation case the full impulse basis of the inner grid + 3 seeded fields, "
        "backgrounds cycling through {0, 2.5, -4}, every node of the column; per unit-mass case every tower cell (every 3rd x 4th on padded grids); per halo case "
        "every tower cell (footprint) or 8 sources incl. shifted measurement points (dispersion); all cases are distinct lattice points with O(1) fields, hence non-trivial; "
        "evaluations counts solver executions"
    )
    ctx.assumptions += ["continuous Kz of the harness' own profile families is integrated by scipy.quad for the exact resistance"]
    cc = list(cons_cases(ctx.tier))
    callforms.run_solver_forms(ctx)
    errorpaths.run(ctx, case_conservation, [c for c in cons_cases(ctx.tier) if c['prof'] == 'most_aniso'][:2])
    errorpaths.run_threaded(ctx, case_conservation, [c for c in cons_cases(ctx.tier) if c['prof'] == 'most_aniso'][:2], threads=(2, 3, 4, 8))
    errorpaths.run_threaded(ctx, case_fine_column, [c for c in fine_cases(ctx.tier) if c['prof'] == 'most_u' and c['bg'] == 400.0], threads=(2, 4, 8), sub="numerical threads > 1, column of thousands of layers")
    ctx.run_cases(case_conservation, cc, sub="conservation", chunksize=1)
    ctx.run_cases(case_unitmass, cc, sub="unit-mass", chunksize=1)
    ctx.run_cases(case_halo, halo_cases(ctx.tier), sub="halo-padding", chunksize=1)
    ctx.run_cases(case_fine_column, fine_cases(ctx.tier), sub="fine column (thousands of layers), large background", chunksize=1)
    ctx.run_cases(case_int_column, [{"halo": h} for h in (0.0, 13.0, None)], sub="integer-typed column", chunksize=1)
    bigcases.run(ctx, "C03")
