"""C20 - source-area rescaling and percentile contours mean what they say.

Exhaustive small-field enumeration with exactly representable (dyadic) values, so every sum is exact:
  ALL f in {0,1/4,1,5/2}^(2x2) x ALL g in {0,1,2,3}^(2x2)  (65 536 pairs; thorough adds ALL f in {0,1,3}^(2x3) x g in {0,1,2}^(2x3), 531 441 pairs)
  g as float and as integer dtype, f as float and integer dtype; strictly increasing transforms {2g+1, g^3, exp g};
  all 24 cell permutations of the 2x2 case (on tie-free g); the five built-in base functions on an 8x6 grid with a seeded field;
  percentile contours for ALL f in {0,1,2,4}^(2x2) (non-zero) and {0,1,3}^(2x3) x p in {k/16} and every exact cumulative fraction;
  2-D / 3-D input, 1-D / 2-D coordinates, scale factors 2^k.
Oracle: vf/oracles/sourcearea.py (Fractions, O(n^2))."""

import itertools
import math
from fractions import Fraction

import numpy as np

from vf import bigcases
from vf import core
from vf import errorpaths
from vf.oracles import sourcearea as sa

PROPERTY = "C20"
LEVEL = "exploration"
MANIFEST = {
    "technique": "exhaustive enumeration of all small non-negative fields over a dyadic value alphabet (complete 2x2 and 2x3 products) against a brute-force exact-arithmetic oracle; all cell permutations; dtype and transform variants",
    "text": "The complete set of 2x2 fields over {0,1,2,4} x {0,1,2} (and, thorough, 2x3 fields) is pushed through get_source_area and extract_percentile_contour; with dyadic values every sum is exact, so ties, zeros and rational knife-edges are decided rather than rounded. For every cell the rescaled value must lie between the sum over strictly larger g and the sum over the other cells with larger-or-equal g; percentile contours must return the minimal cell count, its smallest value and count x cell area, monotone in p and equivariant under scaling.",
    "note": "Tied cells may or may not be counted (the property says so), hence bounds rather than equality on ties; equality is demanded on tie-free base fields under monotone transforms and permutations. Knife-edges are judged exactly only when p*total is exact in floating point (dyadic p and cell area); otherwise either neighbour is accepted.",
}


def _check_bounds(f, g, r, lab, v, sigextra=""):
    lo, hi = sa.bounds(list(f), list(g))
    total = sum(Fraction(x) for x in f)
    for c in range(len(f)):
        rc = Fraction(float(r[c]))
        if not (lo[c] <= rc <= hi[c]):
            v.append({"sub": "bounds", "sig": "bounds" + sigextra, "msg": "%s: rescaled value of cell %d is %s, must lie in [%s, %s] (sum of f over strictly larger g / over other cells with larger-or-equal g)" % (lab, c, float(r[c]), lo[c], hi[c])})
            return False
        if rc < 0 or rc > total or (f[c] > 0 and rc >= total):
            v.append({"sub": "range", "sig": "range" + sigextra, "msg": "%s: rescaled value %s of cell %d outside [0, total=%s)" % (lab, float(r[c]), c, total)})
            return False
    for a, b in itertools.permutations(range(len(f)), 2):
        if g[a] > g[b] and r[a] > r[b]:
            v.append({"sub": "monotone", "sig": "monotone" + sigextra, "msg": "%s: g[%d] > g[%d] but rescaled %s > %s" % (lab, a, b, r[a], r[b])})
            return False
    return True


def case_rescale(case):
    from bldfm.utils import get_source_area

    shape = tuple(case["shape"])
    ncell = shape[0] * shape[1]
    fvals, gvals = case["fvals"], case["gvals"]
    v = []
    n = 0
    fs = list(itertools.product(fvals, repeat=ncell))
    gs = list(itertools.product(gvals, repeat=ncell))
    lo_i, hi_i = case["slice"]
    for f in fs[lo_i:hi_i]:
        for g in gs:
            lab = "f=%s g=%s" % (list(f), list(g))
            # base fields as class labels (unsigned), single precision, and - where g only takes the values 0 and 1 - as a
            # boolean region mask
            dts = ((float, float), (float, np.int64), (np.int64, np.int32), (float, np.uint8), (float, np.float32)) + (((float, np.bool_),) if set(g) <= {0, 1} else ())
            for fdt, gdt in dts if len(v) < 6 else ():
                fscale = 1 if fdt is float else 4  # integer-typed f: the same field in units of 1/4
                fa = np.array([x * fscale for x in f], dtype=fdt).reshape(shape)
                ga = np.array(g, dtype=gdt).reshape(shape)
                r = np.asarray(get_source_area(fa, ga)) / fscale
                n += 1
                if r.shape != shape:
                    v.append({"sub": "shape", "sig": "shape", "msg": "%s: result shape %s" % (lab, r.shape)})
                    continue
                _check_bounds(f, g, r.ravel(), "%s (f %s, g %s)" % (lab, np.dtype(fdt).name, np.dtype(gdt).name), v, "/g-%s" % ("integer" if gdt is not float else "float"))
            # the same cells in other memory layouts: Fortran order and transposed views of the transposed problem
            if len(v) < 6 and (fs.index(f) + gs.index(g)) % 7 == 0:
                fa = np.array(f, float).reshape(shape)
                ga = np.array(g, float).reshape(shape)
                base = np.asarray(get_source_area(fa, ga))
                for lname, f2, g2, back in (("Fortran-ordered g", fa, np.asfortranarray(ga), lambda r: r), ("Fortran-ordered f and g", np.asfortranarray(fa), np.asfortranarray(ga), lambda r: r),
                                            ("transposed views", fa.T.copy().T, ga.T.copy().T, lambda r: r), ("transposed problem", fa.T, ga.T, lambda r: r.T)):
                    r = np.asarray(get_source_area(f2, g2))
                    n += 1
                    if lname == "transposed problem" and len(set(g)) < ncell:
                        # tied cells may be counted in another order once the cells are stored in another order: bounds only
                        if r.shape == f2.shape:
                            _check_bounds(list(np.asarray(f2).ravel()), list(np.asarray(g2).ravel()), r.ravel(), "%s (%s)" % (lab, lname), v, "/layout")
                            continue
                    if r.shape != f2.shape or not np.array_equal(back(r), base):
                        v.append({"sub": "layout", "sig": "layout/%s" % lname.split()[0], "msg": "%s, %s: result %s differs from the C-ordered call %s" % (lab, lname, np.asarray(back(r)).tolist() if r.shape == f2.shape else r.shape, base.tolist())})
            tie_free = len(set(g)) == ncell
            if tie_free and len(v) < 6:
                base = np.asarray(get_source_area(np.array(f, float).reshape(shape), np.array(g, float).reshape(shape))).ravel()
                ga = np.array(g, float)
                for tname, tg in (("2g+1", 2 * ga + 1), ("g^3", ga**3), ("exp g", np.exp(ga)), ("-1/(g+1)", -1.0 / (ga + 1))):
                    r = np.asarray(get_source_area(np.array(f, float).reshape(shape), tg.reshape(shape))).ravel()
                    n += 1
                    if not np.array_equal(r, base):
                        v.append({"sub": "transform", "sig": "transform", "msg": "%s: result changes under the strictly increasing transformation %s of g: %s vs %s" % (lab, tname, r.tolist(), base.tolist())})
                if ncell == 4:
                    for perm in itertools.permutations(range(4)):
                        pf = np.array([f[k] for k in perm], float).reshape(shape)
                        pg = np.array([g[k] for k in perm], float).reshape(shape)
                        r = np.asarray(get_source_area(pf, pg)).ravel()
                        n += 1
                        if not np.array_equal(r, base[list(perm)]):
                            v.append({"sub": "permutation", "sig": "permutation", "msg": "%s: permuting the cells by %s does not permute the result: %s vs %s" % (lab, perm, r.tolist(), base[list(perm)].tolist())})
                            break
    return {"v": v[:6], "nt": n, "key": core.canon(case), "n": n}


def case_percentile(case):
    from bldfm.plotting import extract_percentile_contour

    shape = tuple(case["shape"])
    ny, nx = shape
    ncell = ny * nx
    dx, dy = 2.0, 4.0
    x, y = np.arange(nx) * dx, np.arange(ny) * dy
    Y2, X2 = np.meshgrid(y, x, indexing="ij")
    grids = {"2d": (X2, Y2, np.zeros(shape)), "1d": (x, y, np.zeros(1))}
    # the same cells on rasters whose axes run the other way (north-up image rows, reversed x): the field is flipped
    # together with its coordinates, so level and area must not change
    flips = {"y-desc": (slice(None, None, -1), slice(None)), "x-desc": (slice(None), slice(None, None, -1)), "xy-desc": (slice(None, None, -1), slice(None, None, -1))}
    v = []
    n = 0
    fs = [f for f in itertools.product(case["fvals"], repeat=ncell) if any(f)]
    lo_i, hi_i = case["slice"]
    for f in fs[lo_i:hi_i]:
        total = sum(f)
        vals = sorted(f, reverse=True)
        cums = list(itertools.accumulate(vals))
        ps = sorted({Fraction(k, 16) for k in range(1, 17)} | {Fraction(c, total) for c in cums if c > 0})
        fa = np.array(f, float).reshape(shape)
        prev = None
        for p in ps:
            pf = float(p)
            k, lev, slack = sa.percentile(f, p)
            # is the knife-edge decided exactly in floating point?  (p*total exact)
            exact = Fraction(pf) * total == Fraction(pf * total) and Fraction(pf) == p
            k_alt = None
            if not exact:
                # rounding of p*total may push the target just above / below an exact cumulative sum
                k2, lev2, _ = sa.percentile(f, Fraction(pf * total) / total) if total else (k, lev, 0)
                k_alt = (k2, lev2)
            for gname, grid in grids.items():
                if len(v) >= 6:
                    break
                level, area = extract_percentile_contour(fa, grid, pct=pf)
                n += 1
                ok = (area == k * dx * dy and level == float(lev)) or (k_alt is not None and area == k_alt[0] * dx * dy and level == float(k_alt[1]))
                if not ok:
                    v.append({"sub": "percentile", "sig": "percentile/%s" % ("knife-edge" if slack == 0 else "interior"),
                              "msg": "f=%s p=%s (%s coords): returned level %r area %r; the fewest top cells reaching p*total are %d (level %s, area %s)" % (list(f), p, gname, level, area, k, float(lev), k * dx * dy)})
            if len(v) < 6:
                for fname, (sj, si) in flips.items():
                    for gname, gg in (("2d", (X2[sj, si], Y2[sj, si], np.zeros(shape))), ("1d", (x[si], y[sj], np.zeros(1)))):
                        level, area = extract_percentile_contour(fa[sj, si], gg, pct=pf)
                        n += 1
                        ok = (area == k * dx * dy and level == float(lev)) or (k_alt is not None and area == k_alt[0] * dx * dy and level == float(k_alt[1]))
                        if not ok:
                            v.append({"sub": "percentile-axes", "sig": "percentile-axes/%s" % fname, "msg": "f=%s p=%s on a raster with %s coordinates (%s arrays): level %r area %r, expected level %s area %s" % (list(f), p, fname, gname, level, area, float(lev), k * dx * dy)})
                            break
            if prev is not None and len(v) < 6:
                level, area = extract_percentile_contour(fa, grids["2d"], pct=pf)
                if area < prev[1] or level > prev[0]:
                    v.append({"sub": "percentile-monotone", "sig": "percentile-monotone", "msg": "f=%s: from p=%s to %s area went %r -> %r, level %r -> %r" % (list(f), prev[2], p, prev[1], area, prev[0], level)})
                prev = (level, area, p)
            else:
                prev = extract_percentile_contour(fa, grids["2d"], pct=pf) + (p,)
        if not np.array_equal(fa, np.array(f, float).reshape(shape)):
            v.append({"sub": "argument-modified", "sig": "argument-modified/contour", "msg": "extract_percentile_contour changed the caller's field f=%s to %s" % (list(f), fa.ravel().tolist())})
            fa = np.array(f, float).reshape(shape)
        # scaling and 3-D input (p = 1/2 and 13/16)
        for pf in (0.5, 0.8125, 1.0):
            l0, a0 = extract_percentile_contour(fa, grids["2d"], pct=pf)
            for s in (0.25, 8.0, 2.0**-30):
                l1, a1 = extract_percentile_contour(fa * s, grids["2d"], pct=pf)
                n += 1
                if l1 != l0 * s or a1 != a0:
                    v.append({"sub": "percentile-scaling", "sig": "percentile-scaling", "msg": "f=%s scaled by %g: level %r (expected %r), area %r (expected %r)" % (list(f), s, l1, l0 * s, a1, a0)})
            f3 = np.stack([np.zeros(shape) + 7.0, fa, fa * 3])
            Z3, Y3, X3 = np.meshgrid(np.arange(3.0), y, x, indexing="ij")
            l3, a3 = extract_percentile_contour(f3, (X3, Y3, Z3), pct=pf, level=1)
            n += 1
            if (l3, a3) != (l0, a0):
                v.append({"sub": "percentile-3d", "sig": "percentile-3d", "msg": "f=%s as level 1 of a 3-D field: (%r, %r) vs 2-D (%r, %r)" % (list(f), l3, a3, l0, a0)})
            # the same 3-D field with horizontal coordinates that have no level axis; the third grid entry (which the
            # function does not use) in the forms callers hold it in: the heights of the levels, one height, nothing
            zl = np.array([0.5, 2.0, 7.5])
            for gname, g3 in (("2-D X,Y + 1-D level heights", (X2, Y2, zl)), ("2-D X,Y + list of heights", (X2, Y2, [0.5, 2.0, 7.5])), ("2-D X,Y + tuple of heights", (X2, Y2, (0.5, 2.0, 7.5))),
                              ("2-D X,Y + one height", (X2, Y2, 2.0)), ("2-D X,Y + None", (X2, Y2, None)), ("1-D x,y + 1-D level heights", (x, y, zl)), ("2-D X,Y + 0-d array", (X2, Y2, np.array(2.0)))):
                try:
                    l4, a4 = extract_percentile_contour(f3, g3, pct=pf, level=1)
                except Exception as e:  # noqa
                    l4, a4 = "raised %s" % type(e).__name__, None
                n += 1
                if (l4, a4) != (l0, a0):
                    v.append({"sub": "percentile-3d", "sig": "percentile-3d/grid-forms", "msg": "f=%s as level 1 of a 3-D field with grid = %s: (%r, %r) vs 2-D (%r, %r)" % (list(f), gname, l4, a4, l0, a0)})
                    break
    return {"v": v[:6], "nt": n, "key": core.canon(case), "n": n}


def case_sparse_generic(case):
    """generic (not exactly representable) positive values next to exact zeros: at p = 1 the contour is the support of the
    field - its area is the number of non-zero cells times the cell area and its level the smallest non-zero value; scaling
    the field scales the level and keeps the area; the field itself comes back untouched"""
    from bldfm.plotting import extract_percentile_contour

    rng = core.case_rng(case["seed"], "c20-sparse")
    v = []
    n = 0
    for k in range(40):
        ny, nx = int(rng.integers(3, 9)), int(rng.integers(3, 9))
        f = rng.random((ny, nx)) * 10.0 ** rng.integers(-6, 4)
        f[rng.random((ny, nx)) < rng.uniform(0.2, 0.8)] = 0.0
        if not f.any():
            continue
        y, x = np.arange(ny) * 7.0, np.arange(nx) * 3.0
        Y, X = np.meshgrid(y, x, indexing="ij")
        keep = f.copy()
        support = int((f > 0).sum())
        minpos = float(f[f > 0].min())
        for s in (1.0, 3.0, 1.0 / 3.0, 1e-5):
            lev, area = extract_percentile_contour(f * s, (X, Y, np.zeros((ny, nx))), pct=1.0)
            n += 1
            if area != support * 21.0 or not np.isclose(lev, minpos * s, rtol=1e-12, atol=0):
                v.append({"sub": "percentile-full", "sig": "percentile-full", "msg": "field %dx%d with %d non-zero cells (values ~%.1e) scaled by %g, p=1: level %r area %r; the support has area %r and smallest value %r" % (ny, nx, support, float(f.max()), s, lev, area, support * 21.0, minpos * s)})
                break
        if not np.array_equal(f, keep):
            v.append({"sub": "argument-modified", "sig": "argument-modified/contour", "msg": "extract_percentile_contour changed the caller's field"})
    return {"v": v[:5], "nt": n, "key": core.canon(case), "n": n}


def case_builtin(case):
    import bldfm.utils as bu

    seed = case["seed"]
    rng = core.case_rng(seed, "c20-builtin")
    ny, nx = 6, 8
    x, y = np.arange(nx) * 10.0, np.arange(ny) * 15.0
    X, Y = np.meshgrid(x, y)
    f = rng.random((ny, nx))
    f[rng.random((ny, nx)) < 0.2] = 0.0
    f = np.round(f * 1024) / 1024  # dyadic: sums exact
    mp, wind = (30.0, 45.0), (2.0, -1.5)
    bases = {
        "contribution": bu.source_area_contribution(f),
        "circular": bu.source_area_circular(X, Y, mp),
        "upwind": bu.source_area_upwind(X, Y, mp, wind),
        "crosswind": bu.source_area_crosswind(X, Y, mp, wind),
        "sector": bu.source_area_sector(X, Y, mp, wind),
    }
    v = []
    n = 0
    for name, g in bases.items():
        g = np.asarray(g)
        if g.shape != f.shape:
            v.append({"sub": "builtin-shape", "sig": "builtin-shape", "msg": "base function %s returns shape %s" % (name, g.shape)})
            continue
        r = np.asarray(bu.get_source_area(f, g))
        n += 1
        _check_bounds(list(f.ravel()), [float(t) for t in g.ravel()], r.ravel(), "built-in base function %s on an 8x6 grid (seed %d)" % (name, seed), v, "/builtin")
        # a strictly increasing transformation applied IN PLACE to the base field the library handed out (np.arctan(g, out=g),
        # then g = 2 g + 1): the base field is the caller's, the footprint is not touched by it, the rescaled field is unchanged
        gg = bases[name]
        if isinstance(gg, np.ndarray) and gg.dtype.kind == "f" and gg.flags.writeable:
            f_before = f.copy()
            np.arctan(gg, out=gg)
            gg *= 2.0
            gg += 1.0
            r2 = np.asarray(bu.get_source_area(f, gg))
            n += 1
            if not np.array_equal(f, f_before):
                v.append({"sub": "builtin-inplace", "sig": "builtin-inplace/footprint-changed/%s" % name, "msg": "transforming the base field returned by %s in place changed the footprint it was computed from (they share memory)" % name})
                f[...] = f_before
            elif r2.shape != r.shape or not np.allclose(r2, r, rtol=1e-12, atol=1e-12 * float(np.abs(f).sum())):
                v.append({"sub": "builtin-inplace", "sig": "builtin-inplace/rescaled-changed/%s" % name, "msg": "rescaled field changes under a strictly increasing in-place transformation of the base field returned by %s" % name})
    # geometric meaning of the built-ins (ordering only)
    d2 = (X - mp[0]) ** 2 + (Y - mp[1]) ** 2
    if not np.array_equal(np.argsort(-bases["circular"].ravel(), kind="stable"), np.argsort(d2.ravel(), kind="stable")):
        v.append({"sub": "builtin-order", "sig": "builtin-order/circular", "msg": "circular base function does not order cells by distance from the tower"})
    return {"v": v[:6], "nt": n, "n": n}


_HIST_BUF = {}


def _hist_field(k, shape):
    # one array object per shape, refilled in place for every call (a running accumulation does exactly this)
    rng = np.random.default_rng(100 + k)
    buf = _HIST_BUF.setdefault(tuple(shape), np.empty(shape))
    buf[...] = np.round(rng.random(shape) * 64) / 64
    return buf


HIST_OPS = [
    {"kind": "rescale", "shape": [4, 5], "f": 0, "g": 1},
    {"kind": "rescale", "shape": [4, 5], "f": 2, "g": 2},
    {"kind": "rescale", "shape": [3, 3], "f": 0, "g": 3, "gint": True},
    {"kind": "contour", "shape": [4, 5], "f": 0, "p": 0.5},
    {"kind": "contour", "shape": [4, 5], "f": 2, "p": 0.8125},
    {"kind": "contour", "shape": [3, 3], "f": 1, "p": 0.5, "desc": True},
    {"kind": "builtin", "shape": [4, 5], "f": 1},
]


def hist_op(i):
    import bldfm.utils as bu
    from bldfm.plotting import extract_percentile_contour

    op = HIST_OPS[i]
    shape = tuple(op["shape"])
    f = _hist_field(op["f"], shape)
    y, x = np.arange(shape[0]) * 4.0, np.arange(shape[1]) * 2.0
    if op["kind"] == "rescale":
        g = _hist_field(op["g"], shape).copy()
        f = _hist_field(op["f"], shape)
        if op.get("gint"):
            g = (g * 64).astype(np.int64)
        return np.asarray(bu.get_source_area(f, g))
    if op["kind"] == "contour":
        if op.get("desc"):
            y = y[::-1].copy()
        Y, X = np.meshgrid(y, x, indexing="ij")
        return extract_percentile_contour(f, (X, Y, np.zeros(shape)), pct=op["p"])
    Y, X = np.meshgrid(y, x, indexing="ij")
    return tuple(np.asarray(bu.get_source_area(f, g)) for g in (bu.source_area_contribution(f), bu.source_area_circular(X, Y, (2.0, 4.0)), bu.source_area_upwind(X, Y, (2.0, 4.0), (1.0, 2.0)),
                                                                   bu.source_area_crosswind(X, Y, (2.0, 4.0), (1.0, 2.0)), bu.source_area_sector(X, Y, (2.0, 4.0), (1.0, 2.0))))


def run(ctx):
    cases = []
    nf = 4**4
    for lo in range(0, nf, 8):
        cases.append({"shape": [2, 2], "fvals": [0, 0.25, 1, 2.5], "gvals": [0, 1, 2, 3], "slice": [lo, lo + 8]})
    if ctx.tier != "quick":
        nf6 = 3**6
        for lo in range(0, nf6, 3):
            cases.append({"shape": [2, 3], "fvals": [0, 0.75, 3], "gvals": [0, 1, 2], "slice": [lo, lo + 3]})
    ctx.run_cases(case_rescale, cases, sub="rescale", chunksize=1)
    errorpaths.run_threaded(ctx, case_rescale, cases[:2], threads=(2, 3, 4))
    pc = [{"shape": [2, 2], "fvals": [0, 1, 2, 4], "slice": [lo, lo + 16]} for lo in range(0, 4**4, 16)]
    pc += [{"shape": [2, 3], "fvals": [0, 1, 3], "slice": [lo, lo + 24]} for lo in range(0, 3**6, 24)]
    if ctx.tier != "quick":
        pc += [{"shape": [3, 3], "fvals": [0, 1, 2], "slice": [lo, lo + 200]} for lo in range(0, 3**9, 200)]
    ctx.run_cases(case_percentile, pc, sub="percentile", chunksize=1)
    from vf import callerenv
    callerenv.run(ctx, case_percentile, pc[:2] + pc[-1:])
    callerenv.run(ctx, case_builtin, [{"seed": ctx.seed}])
    errorpaths.run_threaded(ctx, case_percentile, pc[:1], threads=(2, 3))
    ctx.run_cases(case_builtin, [{"seed": ctx.seed + k} for k in range(8)], sub="built-in base functions")
    ctx.run_cases(case_sparse_generic, [{"seed": ctx.seed + k} for k in range(16)], sub="support-at-p=1")
    ctx.rule = (
        "rescale: complete product of all f in {0,1/4,1,5/2}^(2x2) x all g in {0,1,2,3}^(2x2) (thorough: + all {0,1,3}^(2x3) x {0,1,2}^(2x3)) x 3 dtype pairs, + 4 monotone transforms and all 24 cell permutations on tie-free g; "
        "percentile: all non-zero f in {0,1,2,4}^(2x2) and {0,1,3}^(2x3) (thorough: + {0,1,2}^(3x3)) x p in {k/16} U exact cumulative fractions x 1-D/2-D coordinates, + scalings and 3-D input; "
        "every call is a distinct non-trivial evaluation; evaluations counts library calls"
    )
    from vf import histories

    histories.run(ctx, __name__, 2 if ctx.tier == "quick" else 3)
    bigcases.run(ctx, "C20")
