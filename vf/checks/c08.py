"""C08 - the meteorological wind-direction convention holds end to end.

ALL 360 integer wind directions x (speed, stability, closure, grid, reference-origin quadrant)
configurations, everything through parse_config_dict -> run_bldfm_single with the tower given by
latitude/longitude (placed at the domain centre by the harness' own equirectangular inverse).
Oracle: bearing from the tower to the centre of mass of the footprint inside the largest disc
centred on the tower == wind_dir within 6 degrees; compute_wind_fields preserves the speed and
maps 0/90/180/270 to winds toward south/west/north/east."""

import itertools
import math

import numpy as np

from vf import bigcases
from vf import core
from vf.oracles import geo

PROPERTY = "C08"
LEVEL = "exploration"
MANIFEST = {
    "technique": "bounded-exhaustive enumeration of all 360 integer wind directions per configuration through the public config-driven interface; rotationally symmetric centroid-bearing oracle",
    "text": "Every integer wind direction is run for each configuration of a lattice of speeds, stabilities, closures, grid aspect ratios (square cells, oblong domain, dx != dy) and reference origins in all four latitude/longitude sign quadrants and on the equator / prime meridian (coordinate exactly 0), with the tower located by latitude/longitude. The bearing of the footprint's centre of mass (taken in a disc around the tower so the window itself has no preferred direction) must equal the wind direction within 6 degrees; because every direction is enumerated, a swapped sine/cosine (error |90 - 2 wd|), a sign slip in one component, swapped tower coordinates or a wrongly reflected footprint all show somewhere on the circle.",
    "note": "Tolerance 6 degrees (observed worst 3.3 degrees with the Gaussian-tapered disc window; a hard-edged disc gives up to 4.5). The tower is placed with the harness' own equirectangular formula; its returned local position is required to be within 1 m of the domain centre.",
}

GRIDS = {"large": (352, 352, 1760.0, 1760.0), "small": (16, 16, 320.0, 320.0), "square": (32, 32, 400.0, 400.0), "oblong": (32, 48, 400.0, 600.0), "aniso": (48, 32, 300.0, 400.0),
         # a low mast (2 m) in a domain several hundred measurement heights long, as needed to hold a stable-night footprint
         "low-mast": (96, 64, 1200.0, 800.0)}
LOW = {"zm": 2.0, "nz": 16, "ustar": 0.25}
ORIGINS = {"NE": (50.0, 10.0), "NW": (35.0, -105.0), "SE": (-33.0, 151.0), "SW": (-23.0, -46.0), "equator": (0.0, 37.0), "greenwich": (51.5, 0.0), "null-island": (0.0, 0.0),
           "greenwich-west": (51.5, -0.002), "greenwich-east": (51.5, 0.0005), "dateline-west": (-17.0, 179.999), "dateline-east": (-17.0, -179.9995)}
SPECIAL_ORIGINS = ("greenwich-west", "greenwich-east", "dateline-west", "dateline-east")
TOL_DEG = 6.0


def configs(tier):
    if tier == "quick":
        cyc = itertools.cycle([("MOST", -100.0, 4.0), ("MOSTM", 50.0, 2.0), ("CONSTANT", 1e9, 6.0), ("MOST", 1e9, 2.0), ("MOSTM", -100.0, 6.0)])
        sel = [(g, o) + next(cyc) for g, o in itertools.product([g for g in GRIDS if g not in ("low-mast", "small", "large")], [o for o in ORIGINS if o not in SPECIAL_ORIGINS])]
    else:
        sel = list(itertools.product([g for g in GRIDS if g not in ("low-mast", "small", "large")], [o for o in ORIGINS if o not in SPECIAL_ORIGINS], ("MOST", "MOSTM", "CONSTANT"), (-100.0, 1e9, 50.0), (2.0, 6.0)))
    for g, o, clo, L, ws in sel:
        yield {"grid": g, "origin": o, "closure": clo, "mol": L, "speed": ws}
    # reference origins just WEST of the Greenwich meridian / of the antimeridian with the tower just east of it (longitudes of
    # opposite sign), and the mirror cases
    for k_, o_ in enumerate(("greenwich-west", "dateline-west", "greenwich-east", "dateline-east")):
        yield {"grid": "square", "origin": o_, "closure": ("MOST", "MOSTM")[k_ % 2], "mol": (-100.0, 50.0)[k_ % 2], "speed": 4.0}
    # the literal statement (centre of mass of the WHOLE returned footprint) for the low mast, no halo configured
    for L, clo in itertools.product((-30.0, 1e9, 20.0), ("MOST",) if tier == "quick" else ("MOST", "MOSTM")):
        yield {"grid": "low-mast", "origin": "NE", "closure": clo, "mol": L, "speed": 3.5, "window": "whole-domain"}


def make_cfg(case, wd):
    from bldfm.config_parser import parse_config_dict

    nx, ny, xmax, ymax = GRIDS[case["grid"]]
    rlat, rlon = ORIGINS[case["origin"]]
    lat, lon = geo.place(rlat, rlon, xmax / 2, ymax / 2)
    lon = (lon + 180.0) % 360.0 - 180.0  # longitudes as a GPS reports them: in [-180, 180)
    low = case["grid"] == "low-mast"
    return parse_config_dict({
        "domain": {"nx": nx, "ny": ny, "xmax": xmax, "ymax": ymax, "nz": LOW["nz"] if low else 8, "modes": [nx, ny], "ref_lat": rlat, "ref_lon": rlon},
        "towers": [{"name": "mast", "lat": lat, "lon": lon, "z_m": LOW["zm"] if low else 5.0}],
        "met": {"ustar": LOW["ustar"] if low else 0.4, "mol": case["mol"], "wind_speed": case["speed"], "wind_dir": float(wd)},
        "solver": {"closure": case["closure"], "footprint": True, "precision": "double"},
    })


def case_circle(case):
    from bldfm.interface import run_bldfm_single
    from bldfm.utils import compute_wind_fields

    nx, ny, xmax, ymax = GRIDS[case["grid"]]
    v = []
    worst = 0.0
    s = case["speed"]
    for wd in range(360):
        u, w = compute_wind_fields(s, float(wd))
        eu, ew = -s * math.sin(math.radians(wd)), -s * math.cos(math.radians(wd))
        if abs(math.hypot(u, w) - s) > 1e-9 * s or abs(u - eu) > 1e-9 * s or abs(w - ew) > 1e-9 * s:
            v.append({"sub": "decomposition", "sig": "decomposition", "msg": "compute_wind_fields(%g, %d) = (%.6g, %.6g), convention gives (%.6g, %.6g)" % (s, wd, u, w, eu, ew)})
        cfg = make_cfg(case, wd)
        if wd % 9 == 0:
            # the same configuration in dispersion mode first (a user comparing both modes in one session)
            cfg_d = make_cfg(case, wd)
            cfg_d.solver.footprint = False
            run_bldfm_single(cfg_d, cfg_d.towers[0])
        r = run_bldfm_single(cfg, cfg.towers[0])
        X, Y = np.asarray(r["grid"][0]), np.asarray(r["grid"][1])
        f = np.asarray(r["flx"], dtype=float)
        tx, ty = r["tower_xy"]
        if abs(tx - xmax / 2) > 1.0 or abs(ty - ymax / 2) > 1.0:
            v.append({"sub": "tower-position", "sig": "tower-position", "msg": "tower placed %.1f m east / %.1f m north of the origin %s is reported at (%.2f, %.2f) (wd=%d); case %s" % (xmax / 2, ymax / 2, ORIGINS[case["origin"]], tx, ty, wd, core.canon(case))})
            break
        Rd = 0.95 * min(xmax, ymax) / 2
        rr2 = (X - tx) ** 2 + (Y - ty) ** 2
        # rotationally symmetric, smooth window (Gaussian inside the largest disc): a hard-edged disc adds up to
        # 4.5 deg of pure discretisation error on these grids, the taper keeps it below 3.3 deg
        wgt = f * np.exp(-rr2 / (0.45 * Rd) ** 2) * (rr2 <= Rd**2)
        if case.get("window") == "whole-domain":
            wgt = f
        cx, cy = (wgt * (X - tx)).sum(), (wgt * (Y - ty)).sum()
        if not (np.isfinite(cx) and np.isfinite(cy)) or (cx == 0 and cy == 0):
            v.append({"sub": "bearing", "sig": "bearing/degenerate", "msg": "footprint centroid undefined for wd=%d; case %s" % (wd, core.canon(case))})
            continue
        b = math.degrees(math.atan2(cx, cy)) % 360
        e = abs((b - wd + 180) % 360 - 180)
        worst = max(worst, e)
        if e > TOL_DEG:
            v.append({"sub": "bearing", "sig": "bearing", "msg": "wind_dir=%d: footprint centre of mass lies at bearing %.1f from the tower (error %.1f deg > %g); case %s" % (wd, b, e, TOL_DEG, core.canon(case))})
    for wd, exp in ((0, (0.0, -s)), (90, (-s, 0.0)), (180, (0.0, s)), (270, (s, 0.0))):
        u, w = compute_wind_fields(s, float(wd))
        if abs(u - exp[0]) > 1e-9 * s or abs(w - exp[1]) > 1e-9 * s:
            v.append({"sub": "cardinal", "sig": "cardinal/%d" % wd, "msg": "wind from %d deg decomposes to (%.3g, %.3g), expected (%.3g, %.3g)" % (wd, u, w, exp[0], exp[1])})
    return {"v": v[:5], "nt": 360, "n": 360, "obs": {"worst_bearing_error_deg": round(worst, 2), "directions": 360}}


def case_origin_tower(case):
    """a tower standing exactly ON the reference origin (its lat/lon ARE ref_lat/ref_lon, local position (0, 0), the
    south-west corner of the domain) with the wind from the north-east quadrant, whose upwind side lies inside the domain:
    centre of mass of the whole returned footprint, bearings 25..65 degrees (clean tree: within 2.1 degrees)"""
    from bldfm.config_parser import parse_config_dict
    from bldfm.interface import run_bldfm_single

    rlat, rlon = ORIGINS[case["origin"]]
    v = []
    worst = 0.0
    n = 0
    for wd in range(25, 66, 5):
        cfg = parse_config_dict({
            "domain": {"nx": 32, "ny": 32, "xmax": 400.0, "ymax": 400.0, "nz": 8, "modes": [32, 32], "ref_lat": rlat, "ref_lon": rlon},
            "towers": [{"name": "mast", "lat": rlat, "lon": rlon, "z_m": 5.0}],
            "met": {"ustar": 0.4, "mol": case["mol"], "wind_speed": 4.0, "wind_dir": float(wd)},
            "solver": {"closure": case["closure"], "footprint": True, "precision": "double"},
        })
        r = run_bldfm_single(cfg, cfg.towers[0])
        n += 1
        X, Y = np.asarray(r["grid"][0]), np.asarray(r["grid"][1])
        f = np.asarray(r["flx"], dtype=float)
        tx, ty = r["tower_xy"]
        if abs(tx) > 1e-6 or abs(ty) > 1e-6:
            v.append({"sub": "tower-position", "sig": "tower-position/origin", "msg": "a tower at the reference origin %s is reported at (%r, %r)" % ((rlat, rlon), tx, ty)})
            break
        cx, cy = (f * (X - tx)).sum(), (f * (Y - ty)).sum()
        b = math.degrees(math.atan2(cx, cy)) % 360
        e = abs((b - wd + 180) % 360 - 180)
        worst = max(worst, e)
        if not e <= TOL_DEG:
            v.append({"sub": "bearing", "sig": "bearing/origin-tower", "msg": "tower ON the reference origin, wind_dir=%d: footprint centre of mass lies at bearing %.1f from the tower (error %.1f deg > %g, %.0f %% of the weight inside the domain); case %s" % (wd, b, e, TOL_DEG, 100 * f.sum(), core.canon(case))})
    return {"v": v[:3], "nt": n, "n": n, "obs": {"worst_bearing_error_deg": round(worst, 2)}}


def _bearing_error(r, xmax, ymax, wd):
    X, Y = np.asarray(r["grid"][0]), np.asarray(r["grid"][1])
    f = np.asarray(r["flx"], dtype=float)
    tx, ty = r["tower_xy"]
    Rd = 0.95 * min(xmax, ymax) / 2
    rr2 = (X - tx) ** 2 + (Y - ty) ** 2
    wgt = f * np.exp(-rr2 / (0.45 * Rd) ** 2) * (rr2 <= Rd**2)
    cx, cy = (wgt * (X - tx)).sum(), (wgt * (Y - ty)).sum()
    b = math.degrees(math.atan2(cx, cy)) % 360
    return b, abs((b - wd + 180) % 360 - 180)


def case_series(case):
    """the same convention through the time-series / multi-tower / parallel drivers, with the met series written the way a
    YAML file gives it: whole numbers as INTEGERS (wind_speed: 3, wind_dir: [0, 25, 50, ...])"""
    import bldfm.interface as itf
    from bldfm.config_parser import parse_config_dict

    nx, ny, xmax, ymax = GRIDS[case["grid"]]
    rlat, rlon = ORIGINS[case["origin"]]
    lat, lon = geo.place(rlat, rlon, xmax / 2, ymax / 2)
    dirs = list(range(case["start"], 360, 25))
    met = {"ustar": 0.4, "mol": case["mol"], "wind_speed": 3 if case["ints"] else 3.0, "wind_dir": dirs if case["ints"] else [float(d) for d in dirs]}
    if case["mol_int"]:
        met["mol"] = int(case["mol"])
    cfg = parse_config_dict({
        "domain": {"nx": nx, "ny": ny, "xmax": xmax, "ymax": ymax, "nz": 8, "modes": [nx, ny], "ref_lat": rlat, "ref_lon": rlon},
        "towers": [{"name": "mast", "lat": lat, "lon": lon, "z_m": 5 if case["ints"] else 5.0}],
        "met": met, "solver": {"closure": case["closure"], "footprint": True, "precision": "double"},
        "parallel": {"use_cache": bool(case.get("cache"))},
    })
    v = []
    worst = 0.0
    runs = {"timeseries": itf.run_bldfm_timeseries(cfg, cfg.towers[0]), "multitower": itf.run_bldfm_multitower(cfg)["mast"]}
    if case.get("cache"):
        # the same session again: everything is now answered from the result cache the first pass filled
        runs["timeseries-second-pass"] = itf.run_bldfm_timeseries(cfg, cfg.towers[0])
    if case.get("parallel"):
        for strat in ("towers", "time"):
            runs["parallel-" + strat] = itf.run_bldfm_parallel(cfg, max_workers=2, parallel_over=strat)["mast"]
    for how, res in runs.items():
        for wd, r in zip(dirs, res):
            try:
                b, e = _bearing_error(r, xmax, ymax, wd)
            except Exception as ex:  # the returned grid does not even fit the returned field
                v.append({"sub": "bearing-series", "sig": "bearing-series/grid-mismatch", "msg": "%s, step with wind_dir=%r: the returned grid (%s) does not fit the returned footprint (%s): %s; case %s" % (how, wd, np.shape(r["grid"][0]), np.shape(r["flx"]), type(ex).__name__, core.canon(case))})
                break
            worst = max(worst, e)
            if e > TOL_DEG:
                v.append({"sub": "bearing-series", "sig": "bearing-series/%s/%s" % (how.split("-")[0], "integer-met" if case["ints"] else "float-met"),
                          "msg": "%s, step with wind_dir=%r (%s met values): footprint centre of mass at bearing %.1f (error %.1f deg > %g); case %s" % (how, wd, "integer" if case["ints"] else "float", b, e, TOL_DEG, core.canon(case))})
                break
    return {"v": v[:4], "nt": len(dirs) * len(runs), "key": core.canon(case), "n": len(dirs) * len(runs), "obs": {"worst_bearing_error_deg": round(worst, 2), "drivers": list(runs)}}


def case_routes(case):
    """the same convention when the configuration is built from the dataclasses directly, the run is given the caller's own
    tower object, and - second route - another construction sharing the towers was rejected in between"""
    import dataclasses

    from bldfm.config_parser import BLDFMConfig, DomainConfig, MetConfig, SolverConfig, TowerConfig
    from bldfm.interface import run_bldfm_single, run_bldfm_timeseries

    nx, ny, xmax, ymax = GRIDS["square"]
    rlat, rlon = ORIGINS[case["origin"]]
    lat, lon = geo.place(rlat, rlon, xmax / 2, ymax / 2)
    v = []
    worst = 0.0
    dirs = list(range(case["start"], 360, 45))
    for wd in dirs:
        mine = TowerConfig(name="mast", lat=lat, lon=lon, z_m=5.0)
        cfg = BLDFMConfig(domain=DomainConfig(nx=nx, ny=ny, xmax=xmax, ymax=ymax, nz=8, modes=(nx, ny), ref_lat=rlat, ref_lon=rlon), towers=[mine],
                          met=MetConfig(ustar=0.4, mol=-100.0, wind_speed=4.0, wind_dir=float(wd)), solver=SolverConfig(closure="MOST", footprint=True, precision="double"))
        if case["route"] == "after-rejected-replace":
            try:
                dataclasses.replace(cfg, met=MetConfig(ustar=[0.3, 0.4], mol=[-50.0, -60.0, -70.0]))
            except Exception:
                pass
        r = run_bldfm_single(cfg, mine) if case["driver"] == "single" else run_bldfm_timeseries(cfg, mine)[0]
        # the tower's position is taken from the harness' own placement, not from the result
        r = dict(r, tower_xy=(xmax / 2, ymax / 2))
        b, e = _bearing_error(r, xmax, ymax, wd)
        worst = max(worst, e)
        if e > TOL_DEG:
            v.append({"sub": "bearing-routes", "sig": "bearing-routes/%s" % case["route"], "msg": "configuration built from the dataclasses (%s), run given the caller's own tower object through %s, wind_dir=%d: footprint centre of mass at bearing %.1f from the tower's position (error %.1f deg > %g); case %s"
                      % (case["route"], case["driver"], wd, b, e, TOL_DEG, core.canon(case))})
            break
    return {"v": v, "nt": len(dirs), "key": core.canon(case), "n": len(dirs), "obs": {"worst_bearing_error_deg": round(worst, 2)}}


def case_cache_race(case):
    """two sessions (forked workers) computing footprints for OPPOSITE wind directions store into one cache directory at the
    same time - every preemption-bounded interleaving of their file operations; their footprints, and those a later cached
    run is served, still lie upwind of the tower"""
    from bldfm.cache import GreensFunctionCache
    from bldfm.interface import run_bldfm_single
    from vf import cacherace

    nx, ny, xmax, ymax = GRIDS["small"]
    base = {"grid": "small", "origin": "NE", "closure": "MOST", "mol": -100.0, "speed": 4.0}
    wds = case["dirs"]
    cfgs = {"wd%d" % wd: make_cfg(base, wd) for wd in wds}
    run_bldfm_single(cfgs["wd%d" % wds[0]], cfgs["wd%d" % wds[0]].towers[0])  # load the compiled kernels once, before the workers are forked

    def berr(label, r):
        wd = int(label[2:])
        b, e = _bearing_error(dict(r, tower_xy=(xmax / 2, ymax / 2)), xmax, ymax, wd)
        return None if e <= TOL_DEG else "wind_dir=%d: footprint centre of mass at bearing %.1f (error %.1f deg)" % (wd, b, e)

    def mk(label):
        def run(cdir):
            cfg = cfgs[label]
            r = run_bldfm_single(cfg, cfg.towers[0], cache=GreensFunctionCache(cdir))
            return {"grid": r["grid"], "flx": r["flx"]}
        return run

    def after(cdir):
        msgs = []
        cache = GreensFunctionCache(cdir)
        for label, cfg in cfgs.items():
            m = berr(label, run_bldfm_single(cfg, cfg.towers[0], cache=cache))
            if m:
                msgs.append("a later cached run: " + m)
        return msgs

    return cacherace.explore([(label, mk(label)) for label in cfgs], berr, after, bound=2, what="footprints for wind directions %r" % (wds,))


def run(ctx):
    core.warm_numba()
    ctx.rule = (
        "all 360 integer wind directions for each configuration (quick: 21 configurations = 3 grids x 7 reference origins with closures/stabilities/speeds cycling; thorough: the full product of 3 grids x 7 origins x 3 closures x 3 stabilities x 2 speeds); "
        "every (configuration, direction) pair is a distinct non-trivial run; evaluations counts single runs"
    )
    res = ctx.run_cases(case_circle, configs(ctx.tier), sub="circle", chunksize=1)
    sc = [{"grid": g, "origin": o, "closure": c, "mol": L, "ints": ints, "mol_int": ints and L != 1e9, "start": st, "parallel": (g == "square" and ints), "cache": not ints}
          for (g, o, c, L, st), ints in itertools.product([("square", "NE", "MOST", -100.0, 0), ("oblong", "greenwich", "MOSTM", 50.0, 7), ("aniso", "SW", "CONSTANT", 1e9, 13)], (True, False))]
    res += ctx.run_cases(case_series, sc, sub="series-drivers", chunksize=1)
    res += ctx.run_cases(case_routes, [{"origin": o, "route": rt, "driver": d, "start": st} for (o, st), rt, d in itertools.product((("NE", 10), ("SW", 25)), ("dataclasses-own-tower", "after-rejected-replace"), ("single", "timeseries"))],
                         sub="configuration from dataclasses / after a rejected construction", chunksize=1)
    res += ctx.run_cases(case_origin_tower, [{"origin": o, "closure": c, "mol": L} for o, (c, L) in itertools.product(("NE", "SW", "null-island"), (("MOST", -100.0), ("MOSTM", 50.0), ("CONSTANT", 1e9)))],
                         sub="tower exactly on the reference origin (domain corner), wind from the quadrant inside the domain", chunksize=1)
    core.run_forked(ctx, case_cache_race, [{"dirs": [20, 200]}], sub="two sessions sharing the cache directory (all interleavings, <= 2 preemptions)", nproc=4, timeout=1800)
    ctx.cov["worst_bearing_error_deg"] = max([r.get("obs", {}).get("worst_bearing_error_deg", 0) for r in res] + [0])
    bigcases.run(ctx, "C08")
