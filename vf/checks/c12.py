"""C12 - a solve is a pure function of its arguments: history, threads, precision do not matter.

Explicit-state breadth-first search over CALL HISTORIES of the real library.  A state is the
history that reaches it; each history is replayed in a PRISTINE child forked from a zygote that
has imported bldfm but never solved (live numba / FFTW objects cannot be copied or reset).
States are deduplicated by a canonical digest of the process-global state the library can
leave behind: runtime thread settings (bldfm.config, FFT manager, pyfftw, numba), the keys of every
per-flag kernel dictionary, the FFTW plan-cache keys (addresses stripped) and a digest of EVERY
non-callable module-level object and closure cell of bldfm.* (so a buffer hoisted to module scope
becomes part of the state automatically).

Alphabet: solves A (8x6 double dispersion numeric, halo 13 -> padded 10x6), A2 (A with halo 30 and nothing else changed),
J (E with halo 20 and the tower moved so that the padded tower offset is E's), all sources of one shape living in ONE array
object refilled in place, H (10x6 dispersion without halo: the same
padded shape as A with a larger interior - collides with A on any reused padded work array), B (same shapes as A, other domain / profiles /
source / background - collides with A on anything keyed by shape only), C (16x12 single footprint,
default halo and modes), D (8x6 double analytic), E (8x6 double footprint, multi-level, halo 13), G (as E on a 10x8 grid: same modes,
domain and halo - collides with E on anything keyed without the grid);
T1,T2,T4,T8: config.NUM_THREADS = k;  R: reset_fft_manager();  F: bare fft2/ifft2 round trip through
the manager.  Environment axis: repository fftw_wisdom.pkl present / absent in the working directory.

Oracle for every solve executed in a history: (i) equal to the same solve run alone in a fresh
one-thread process (1e-12 of field maximum in double, 1e-6 single-vs-single, 1e-5 single-vs-double);
(ii) bit-identical to every other execution of the same solve under the same thread setting in that
history; (iii) argument arrays unmodified; (iv) arrays returned by earlier calls unmodified by later ones."""

import hashlib
import itertools
import os
import shutil
import time

import numpy as np

from vf import bigcases
from vf import core
from vf import callforms
from vf import errorpaths
from vf import solverlib as sl

PROPERTY = "C12"
LEVEL = "model_checking"
MANIFEST = {
    "technique": "explicit-state breadth-first search over call histories of the real library (one pristine forked process per history, states deduplicated by a canonical global-state digest), oracle = fresh-process result of the same call",
    "text": "All call sequences up to the depth bound over an alphabet of nine colliding solves, four thread settings, FFT-manager reset and bare FFTs, from both wisdom environments, are executed on the implementation itself; the search is closed under the library's own global state (every module-level object and closure cell is part of the state key), so any result that depends on what ran before - a cached grid keyed by shape, a reused output buffer, a kernel compiled for another flag, a thread setting left behind - shows as a difference from the fresh-process reference, a loss of bit-identity, or a mutated earlier result.",
    "note": "Thread SETTINGS x histories are enumerated; the interleaving of numba's / FFTW's internal worker threads inside one kernel launch cannot be controlled from Python (the kernel has no reductions). State deduplication is validated in the thorough tier by re-running one full depth without deduplication and comparing the verdicts. FFTW plan-cache expiry (30 s keep-alive) is outside the horizon of a history (< 5 s).",
}

SOLVES = ["A", "A2", "B", "C", "D", "E", "G", "H", "J", "K"]  # K: reference only (threads-first histories), not in the BFS alphabet
OPS = ["A", "A2", "B", "C", "D", "E", "G", "H", "J", "T1", "T2", "T4", "T8", "R", "F"]


TWINS = ["source-values", "source-shape", "z", "u", "v", "Kx", "Ky", "Kz", "domain-x", "domain-y", "levels-other", "levels-duplicate", "levels-order",
         "modes", "meas-x", "meas-y", "background", "mode-flag", "analytic", "halo-other", "halo-default", "precision"]


def twin_args(base, twin):
    """the argument set of solve `base` with EXACTLY ONE argument changed"""
    kw = solve_args(base)
    u, v, Kx, Ky, Kz = kw["profiles"]
    q = kw["srf_flx"]
    lv = kw["levels"]
    lvl = [lv] if np.ndim(lv) == 0 else list(lv)
    mp = kw.get("meas_pt", (0.0, 0.0))
    ch = {
        "source-values": dict(srf_flx=q * 1.5 + 0.25),
        "source-shape": dict(srf_flx=np.full((q.shape[0] + 2, q.shape[1] + 2), 0.5)),
        "z": dict(z=kw["z"] * 1.2),
        "u": dict(profiles=(u * 1.1, v, Kx, Ky, Kz)), "v": dict(profiles=(u, v * 1.1, Kx, Ky, Kz)),
        "Kx": dict(profiles=(u, v, Kx * 1.2, Ky, Kz)), "Ky": dict(profiles=(u, v, Kx, Ky * 1.2, Kz)), "Kz": dict(profiles=(u, v, Kx, Ky, Kz * 1.2)),
        "domain-x": dict(domain=(kw["domain"][0] * 1.5, kw["domain"][1])), "domain-y": dict(domain=(kw["domain"][0], kw["domain"][1] * 1.5)),
        "levels-other": dict(levels=[max(l - 1, 0) for l in lvl] if np.ndim(lv) else max(lv - 1, 0)),
        "levels-duplicate": dict(levels=lvl + [lvl[0]]),
        "levels-order": dict(levels=lvl[::-1] + [3] if len(lvl) == 1 else lvl[::-1]),
        "modes": dict(modes=(4, 4)),
        "meas-x": dict(meas_pt=(float(mp[0]) + 10.0, float(mp[1]))), "meas-y": dict(meas_pt=(float(mp[0]), float(mp[1]) + 15.0)),
        "background": dict(srf_bg_conc=kw.get("srf_bg_conc", 0.0) + 3.0),
        "mode-flag": dict(footprint=not kw.get("footprint", False)),
        "analytic": dict(analytic=not kw.get("analytic", False)),
        "halo-other": dict(halo=(kw.get("halo") or 0.0) + 17.0),
        "halo-default": dict(halo=None if kw.get("halo") is not None else 41.0),
        "precision": dict(precision="single" if kw["precision"] == "double" else "double"),
    }[twin]
    kw.update(ch)
    return kw


def solve_args(name):
    """fresh argument set for solve `name` (new arrays every time)"""
    if "~" in name:
        return twin_args(*name.split("~"))
    rng = np.random.default_rng(12345)
    qA, qB, qC = rng.standard_normal((6, 8)), rng.standard_normal((6, 8)) + 2.0, rng.random((12, 16))
    if name == "A":
        z, prof = sl.build_profiles("most_aniso", 4)
        return dict(srf_flx=qA, z=z, profiles=prof, domain=(80.0, 90.0), levels=[2, 4], modes=(8, 6), halo=13.0, precision="double")
    if name == "A2":  # A with another halo and NOTHING else changed (same z, profiles, levels, domain, modes, source)
        z, prof = sl.build_profiles("most_aniso", 4)
        return dict(srf_flx=qA, z=z, profiles=prof, domain=(80.0, 90.0), levels=[2, 4], modes=(8, 6), halo=30.0, precision="double")
    if name == "J":  # E with another halo and a tower moved so that the PADDED tower offset (40, 45) is the same
        z, prof = sl.build_profiles("most_aniso", 4)
        return dict(srf_flx=qB, z=z, profiles=prof, domain=(80.0, 90.0), levels=[4, 1], modes=(8, 6), halo=20.0, meas_pt=_tower_row(20.0, 30.0), footprint=True, precision="double")
    if name == "H":  # dispersion on a 10x6 grid without halo: the same PADDED shape as A (10x6) with a larger interior
        z, prof = sl.build_profiles("most_u", 4)
        return dict(srf_flx=np.random.default_rng(5).standard_normal((6, 10)) + 3.0, z=z, profiles=prof, domain=(100.0, 90.0), levels=[2, 4], modes=(8, 6), halo=0.0, precision="double")
    if name == "B":
        z, prof = sl.build_profiles("mostm_s", 4)
        return dict(srf_flx=qB, z=z * 1.5, profiles=prof, domain=(160.0, 60.0), levels=[2, 4], modes=(8, 6), halo=13.0, precision="double", srf_bg_conc=2.5)
    if name == "C":
        z, prof = sl.build_profiles("most_u", 4)
        return dict(srf_flx=qC, z=z, profiles=prof, domain=(160.0, 120.0), levels=4, meas_pt=(50.0, 40.0), footprint=True, precision="single")
    if name == "D":
        z, prof = sl.build_profiles("const", 4)
        # same domain, source shape and level indices as A on a column with other node heights
        # ... with A's halo (same pad widths) and ANOTHER source in the same array object (see _run_solve)
        return dict(srf_flx=qB, z=z * 1.25, profiles=prof, domain=(80.0, 90.0), levels=[2, 4], modes=(8, 6), halo=13.0, precision="double", analytic=True)
    if name == "E":
        z, prof = sl.build_profiles("most_aniso", 4)
        # two unsorted levels: the padded spectrum (2, 6, 10) has the shape of A's, so footprint (forward FFT) and dispersion (inverse FFT) meet on one shape
        return dict(srf_flx=qB, z=z, profiles=prof, domain=(80.0, 90.0), levels=[4, 1], modes=(8, 6), halo=13.0, meas_pt=_tower_row(30.0, 45.0), footprint=True, precision="double")
    if name == "K":  # dispersion with the TOP node of the column requested first, then lower nodes (unsorted), background
        z, prof = sl.build_profiles("most_u", 4)
        return dict(srf_flx=qA + 0.5, z=z, profiles=prof, domain=(80.0, 90.0), levels=[len(z) - 1, 2, 0, 4], modes=(8, 6), halo=13.0, precision="double", srf_bg_conc=1.25)
    if name == "G":  # same mode count, domain and halo as E on ANOTHER grid (10x8): collides with E on anything keyed without the grid
        z, prof = sl.build_profiles("most_aniso", 4)
        return dict(srf_flx=np.zeros((8, 10)), z=z, profiles=prof, domain=(80.0, 90.0), levels=[4, 1], modes=(8, 6), halo=13.0, meas_pt=(30.0, 45.0), footprint=True, precision="double")
    raise ValueError(name)


def _digest_arrays(kw):
    h = hashlib.sha256()
    for k in sorted(kw):
        v = kw[k]
        if isinstance(v, np.ndarray):
            h.update(v.tobytes())
        elif isinstance(v, tuple) and v and isinstance(v[0], np.ndarray):
            for a in v:
                h.update(a.tobytes())
        else:
            h.update(repr(v).encode())
    return h.hexdigest()


def _canon_obj(o, depth=0):
    """canonical, address-free description of a module-level object"""
    import logging
    import types

    if depth > 4:
        return "<deep>"
    if o is None or isinstance(o, (bool, int, float, complex, str, bytes)):
        return repr(o)
    if isinstance(o, np.ndarray):
        return "ndarray%s%s:%s" % (o.shape, o.dtype, hashlib.sha256(np.ascontiguousarray(o).tobytes()).hexdigest()[:16])
    if isinstance(o, np.generic):
        return repr(o.item())
    if isinstance(o, (list, tuple)):
        return "[" + ",".join(_canon_obj(x, depth + 1) for x in o) + "]"
    if isinstance(o, (set, frozenset)):
        return "{" + ",".join(sorted(_canon_obj(x, depth + 1) for x in o)) + "}"
    if isinstance(o, dict):
        return "{" + ",".join(sorted("%s:%s" % (_canon_obj(k, depth + 1), _canon_obj(v, depth + 1)) for k, v in o.items())) + "}"
    if isinstance(o, (types.ModuleType, types.FunctionType, types.BuiltinFunctionType, type, logging.Logger, types.MethodType)):
        return "<%s>" % type(o).__name__
    if hasattr(o, "__dict__") and type(o).__module__.startswith("bldfm"):
        return "%s(%s)" % (type(o).__name__, _canon_obj({k: v for k, v in vars(o).items()}, depth + 1))
    return "<%s>" % type(o).__name__


def global_state():
    import sys
    import types

    import numba
    import pyfftw
    import pyfftw.interfaces.cache as pc

    from bldfm import config
    import bldfm.fft_manager as fm

    st = {
        "config.NUM_THREADS": config.NUM_THREADS,
        "fft_manager.threads": None if fm._fft_manager is None else fm._fft_manager.num_threads,
        "pyfftw.threads": pyfftw.config.NUM_THREADS,
        "numba.threads": numba.get_num_threads(),
    }
    keys = []
    cache = getattr(pc, "_fftw_cache", None)
    if cache is not None:
        for k in getattr(cache, "_cache_dict", {}):
            # keep (function, shape, strides, dtype, planner flags); drop addresses, hashes and the
            # input buffer's byte alignment (it depends on where malloc happened to place the array)
            keys.append(repr(tuple(x for x in k if not isinstance(x, int))))
    st["fftw_plans"] = sorted(set(keys))  # plans differing only in buffer alignment are one plan
    mods = {}
    for mname, mod in sorted(sys.modules.items()):
        if not (mname == "bldfm" or mname.startswith("bldfm.")) or mod is None:
            continue
        for name, obj in sorted(vars(mod).items()):
            if name.startswith("__"):
                continue
            if isinstance(obj, types.FunctionType):
                for i, cell in enumerate(obj.__closure__ or ()):
                    try:
                        c = cell.cell_contents
                    except ValueError:
                        continue
                    if isinstance(c, dict):
                        mods["%s.%s<cell%d>" % (mname, name, i)] = repr(sorted(repr(k) for k in c))
                    elif not isinstance(c, (types.FunctionType, type, types.ModuleType)):
                        mods["%s.%s<cell%d>" % (mname, name, i)] = _canon_obj(c)
                continue
            d = _canon_obj(obj)
            if d.startswith("<") and d.endswith(">") and "(" not in d:
                continue
            mods["%s.%s" % (mname, name)] = d
    st["module_objects"] = hashlib.sha256(repr(sorted(mods.items())).encode()).hexdigest()[:20]
    st["module_object_names"] = len(mods)
    return st


_SRC_BUFFERS = {}
_TOWER_TABLE = {}


def _tower_row(x, y):
    # a row of the caller's tower table: ONE float64 array object per tower, handed to every solve for that tower
    key = (x, y)
    if key not in _TOWER_TABLE:
        _TOWER_TABLE[key] = np.array([x, y], dtype=float)
    return _TOWER_TABLE[key]


def _run_solve(name, share_buffers=True):
    S = sl.solver()
    kw = solve_args(name)
    if share_buffers:
        # one preallocated source map per shape, refilled IN PLACE by every solve of the history (a time-stepping caller
        # does exactly this): anything remembered by array identity instead of array contents goes stale
        q = kw["srf_flx"]
        buf = _SRC_BUFFERS.setdefault(q.shape, np.empty(q.shape))
        buf[...] = q
        kw["srf_flx"] = buf
    before = _digest_arrays(kw)
    g, c, f = S(**kw)
    after = _digest_arrays(kw)
    return kw, (np.asarray(c), np.asarray(f), [np.asarray(x) for x in g]), before == after


def _ownership(kw, c, f, g):
    """A result belongs to the caller.  Every returned array is written with a distinct value per element and read back
    (then restored): an array whose elements alias each other, another returned array or an argument fails the read-back,
    i.e. a caller who edits one entry of its result would silently change others.  Read-only arrays are left alone."""
    arrs = [("conc", c), ("flx", f), ("grid X", g[0]), ("grid Y", g[1]), ("grid Z", g[2])]
    saved = [(n, a, a.copy()) for n, a in arrs]
    ins = _digest_arrays(kw)
    bad = None
    for k, (n, a, keep) in enumerate(saved):
        if not (isinstance(a, np.ndarray) and a.flags.writeable and a.size):
            continue
        pat = (np.arange(a.size, dtype=float).reshape(a.shape) + 1000.0 * (k + 1)).astype(a.dtype)
        a[...] = pat
        if not np.array_equal(a, pat):
            bad = ("self-alias", "writing every element of the returned %s (shape %s, strides %s) and reading it back gives %d different values - its elements share memory" % (n, a.shape, a.strides, int((a != pat).sum())))
            break
    if bad is None:
        for k, (n, a, keep) in enumerate(saved):
            if isinstance(a, np.ndarray) and a.flags.writeable and a.size:
                pat = (np.arange(a.size, dtype=float).reshape(a.shape) + 1000.0 * (k + 1)).astype(a.dtype)
                if not np.array_equal(a, pat):
                    bad = ("cross-alias", "writing the other returned arrays changed the returned %s - returned arrays share memory" % n)
                    break
        if bad is None and _digest_arrays(kw) != ins:
            bad = ("argument-alias", "writing into the returned arrays changed an argument array - the result shares memory with the caller's input")
    for n, a, keep in saved:
        if isinstance(a, np.ndarray) and a.flags.writeable and a.size:
            a[...] = keep
    return bad


SMOOTH_Z0 = (0.16, 1e-3, 1e-5, 1e-6, 2e-8)


def case_precision(case):
    """single precision differs from double only by storage rounding (1e-5 of the field maximum) - over roughness lengths
    from crops down to ice / calm water, where the lowest layers have diffusivities of 1e-7 .. 1e-9 m2/s"""
    from vf.oracles import most

    S = sl.solver()
    z0, fp, lv = case["z0"], case["footprint"], case["levels"]
    zm, ust = 5.0, 0.2
    z = most.stretched_grid(6, zm, z0)
    s = most.speed(z, z0, ust, 1e9) + 0.3
    K = most.K(z, ust, 1e9)
    prof = (0.8 * s, 0.6 * s, K.copy(), K.copy(), K.copy())
    q = np.random.default_rng(3).random((6, 8)) + 0.1
    out = {}
    for pr in ("double", "single"):
        _, c, f = S(q, z, prof, (80.0, 90.0), lv, modes=(8, 6), halo=13.0, precision=pr, footprint=fp, meas_pt=(30.0, 45.0), srf_bg_conc=0.5)
        out[pr] = (np.asarray(c, dtype=float), np.asarray(f, dtype=float))
    v = []
    worst = 0.0
    for k, nm in ((0, "conc"), (1, "flux")):
        e = sl.relerr(out["single"][k], out["double"][k], max(np.abs(out["double"][k]).max(), 1e-300))
        worst = max(worst, e)
        if not e <= 1e-5:
            v.append({"sub": "single-vs-double", "sig": "single-vs-double/lattice", "msg": "z0=%g m (Kz at the lowest node %.2e m2/s), %s, levels %r: single-precision %s differs from double precision by %.2e of the field maximum (allowed 1e-5)"
                      % (z0, K[0], "footprint" if fp else "dispersion", lv, nm, e)})
    return {"v": v, "nt": True, "n": 2, "obs": {"worst": float(worst), "Kz0": float(K[0])}}


def case_repeat_extreme(case):
    """requests outside the comfortable number range, three times in one process: whatever the library answers (finite
    fields, inf, nan, an exception) it answers every time - compared byte for byte, exceptions by type"""
    S = sl.solver()
    z, prof = sl.build_profiles("most_aniso", 4)
    q = np.random.default_rng(2).random((6, 8)) + 0.5
    kw = dict(srf_flx=q * case["scale"], z=z, profiles=prof, domain=(80.0, 90.0), levels=case["levels"], modes=(8, 6), halo=13.0, precision=case["prec"], srf_bg_conc=case["bg"], footprint=False)
    outs = []
    for k in range(3):
        try:
            _, c, f = S(**dict(kw, srf_flx=kw["srf_flx"].copy()))
            outs.append(("returned", str(np.asarray(c).dtype), np.asarray(c).tobytes(), np.asarray(f).tobytes()))
        except Exception as e:  # noqa
            outs.append(("raised", type(e).__name__, b"", b""))
    v = []
    for k in (1, 2):
        if outs[k] != outs[0]:
            what = "%s %s" % outs[k][:2] if outs[k][:2] != outs[0][:2] else "different bytes"
            v.append({"sub": "repeat-extreme", "sig": "repeat-extreme/%s" % case["prec"], "msg": "source scaled by %g, background %g, %s precision, levels %r: call %d of three identical calls in one process differs from the first (%s %s, then %s)"
                      % (case["scale"], case["bg"], case["prec"], case["levels"], k + 1, outs[0][0], outs[0][1], what)})
            break
    return {"v": v, "nt": True, "n": 3, "obs": {"first": "%s %s" % outs[0][:2]}}


def case_cache_race(case):
    """purity across PROCESSES that share a cache directory: solves E and J (same grid, domain, levels; other halo and tower)
    in two forked workers, each with its own cache object on one directory, under every preemption-bounded interleaving of
    their file operations; each answer, and the answer a later session gets, equals the solve run alone"""
    from vf import cacherace

    S = sl.solver()
    reqs, expect = {}, {}
    for name in case["solves"]:
        kw = solve_args(name)
        kw["meas_pt"] = tuple(float(t) for t in kw["meas_pt"])
        reqs[name] = kw
        _, c, f = S(**solve_args(name))
        expect[name] = (np.asarray(c), np.asarray(f))
    return cacherace.solver_pair(reqs, expect, 1e-12, "solves %s" % "+".join(case["solves"]))


def case_repeat_interface(case):
    """the same purity one level up: the configuration-driven single run (profiles generated from the forcing, then the solve)
    repeated four times in one process with unrelated solves and profile requests in between is bit-identical every time -
    for ordinary, exactly neutral (L = +-inf) and strongly stratified forcings"""
    from bldfm.config_parser import parse_config_dict
    from bldfm.interface import run_bldfm_single
    from bldfm.pbl_model import vertical_profiles

    S = sl.solver()
    cfg = parse_config_dict({"domain": {"nx": 8, "ny": 6, "xmax": 80.0, "ymax": 90.0, "nz": 6, "modes": [8, 6], "halo": 13.0, "output_levels": [2, 6]},
                             "towers": [{"name": "t", "lat": 0.0, "lon": 0.0, "z_m": 5.0}], "met": {"ustar": 0.35, "mol": case["mol"], "wind_speed": 3.0, "wind_dir": 215.0},
                             "solver": {"footprint": case["footprint"], "precision": case["prec"]}})
    cfg.towers[0].x, cfg.towers[0].y = 30.0, 45.0
    outs = []
    rng = np.random.default_rng(4)
    for k in range(4):
        r = run_bldfm_single(cfg, cfg.towers[0])
        outs.append((np.asarray(r["conc"]).tobytes(), np.asarray(r["flx"]).tobytes(), np.asarray(r["grid"][2]).tobytes()))
        # unrelated work in between (other shapes, other stabilities): whatever it leaves in memory must not matter
        kw = solve_args(("A", "C", "D", "B")[k])
        S(**kw)
        vertical_profiles(3 + 5 * k, 2.0 + k, (1.0 + k, -2.0), ustar=0.2 + 0.1 * k, mol=(-5.0, 7.0, 1e9, -300.0)[k])
        _ = rng.random((50 + 37 * k, 11)) * 1e300
    v = []
    for k in (1, 2, 3):
        if outs[k] != outs[0]:
            which = ["conc", "flx", "heights"][[a != b for a, b in zip(outs[k], outs[0])].index(True)]
            v.append({"sub": "repeat-interface", "sig": "repeat-interface/%s" % ("neutral" if np.isinf(case["mol"]) else "stratified"), "msg": "run_bldfm_single repeated in one process (mol=%r, %s, %s precision): repetition %d differs from the first in %s" % (case["mol"], "footprint" if case["footprint"] else "dispersion", case["prec"], k + 1, which)})
            break
    return {"v": v, "nt": True, "n": 4}


def case_reference(case):
    """every solve of the alphabet, alone, in a fresh one-thread process; written to case['path']"""
    out = {}
    name = case["solve"]
    kw, (c, f, g), _ = _run_solve(name, share_buffers=False)
    np.savez(case["path"], c=c, f=f, gx=g[0], gy=g[1], gz=g[2])
    if name == "A":  # what the library's own exit hook would write
        import pickle

        import pyfftw

        with open(os.path.join(os.path.dirname(case["path"]), "fftw_wisdom.pkl"), "wb") as fh:
            pickle.dump(pyfftw.export_wisdom(), fh)
    if name == "C":  # double-precision twin for the storage-rounding claim
        S = sl.solver()
        kw = solve_args("C")
        kw["precision"] = "double"
        _, c2, f2 = S(**kw)
        np.savez(case["path"] + ".double.npz", c=c2, f=f2)
    return {"v": [], "nt": True, "obs": {"max": float(np.abs(f).max())}}


def case_history(case):
    import bldfm.fft_manager as fm
    from bldfm import config

    hist = case["history"]
    _TOWER_TABLE.clear()
    env_note = errorpaths.prepare(case["env"]) if case.get("env") else None
    if case.get("threads_first"):
        # the threaded flavour of the kernels is really compiled and executed only if it is compiled FIRST (see vf/errorpaths.py)
        import numba

        numba.config.CACHE_DIR = case["numba_cache_dir"]
        config.NUM_THREADS = case["threads_first"]
        env_note = "numerical threads = %d from the first call on, threaded kernels compiled first" % case["threads_first"]
    if case.get("wisdom"):
        # the wisdom file a previous run would have left in the working directory: the repository's own copy if it
        # is there (it is git-ignored, so a bare checkout does not have it), else one exported by the reference stage
        src = os.path.join(core.REPO, "fftw_wisdom.pkl")
        if not os.path.exists(src):
            src = os.path.join(case["refdir"], "fftw_wisdom.pkl")
        shutil.copy(src, "fftw_wisdom.pkl")
    refdir = case["refdir"]
    if not os.path.exists(os.path.join(refdir, "A.npz")):
        raise core.HarnessError("reference results missing in %s" % refdir)
    refs = {}
    v = []
    runs = []  # (name, threads, conc bytes, flx bytes, arrays, digest at return)
    sig_hist = "%s" % ("".join(o if len(o) == 1 else "(%s)" % o for o in hist))
    if case.get("env") or case.get("threads_first"):
        sig_hist = "[%s: %s] %s" % (case.get("env", "threads-first"), env_note, sig_hist)
    for pos, op in enumerate(hist):
        if op[0] == "T" and op[1:].isdigit():
            config.NUM_THREADS = int(op[1:])
        elif op == "R":
            fm.reset_fft_manager()
        elif op == "F":
            a = np.arange(48.0).reshape(6, 8)
            b = fm.ifft2(fm.fft2(a, norm="forward"), norm="forward").real
            if not np.allclose(a, b, atol=1e-12):
                v.append({"sub": "fft-roundtrip", "sig": "fft-roundtrip", "msg": "ifft2(fft2(a)) != a after history %s" % sig_hist})
        else:
            name = op
            if name not in refs:
                rp = os.path.join(refdir, name + ".npz")
                if not os.path.exists(rp):
                    # the reference stage could not produce this solve (the library raised there; reported by that stage)
                    v.append({"sub": "vs-fresh", "sig": "reference-failed/%s" % name.split("~")[-1], "msg": "solve %s raised when run alone in a fresh process (history %s)" % (name, sig_hist)})
                    continue
                d = np.load(rp)
                refs[name] = {k: d[k] for k in d.files}
            kw, (c, f, g), unmodified = _run_solve(name)
            nthreads = config.NUM_THREADS
            if not unmodified:
                v.append({"sub": "inputs-modified", "sig": "inputs-modified/%s" % name, "msg": "solve %s at position %d of history %s modified its argument arrays" % (name, pos, sig_hist)})
            tol = 1e-12 if kw["precision"] == "double" else 1e-6
            for nm, a, b in (("conc", c, refs[name]["c"]), ("flux", f, refs[name]["f"])):
                e = sl.relerr(a, b, max(np.abs(b).max(), 1e-300))
                if not e <= tol:
                    v.append({"sub": "vs-fresh", "sig": "vs-fresh/%s" % name,
                              "msg": "solve %s at position %d of history %s (threads=%d, wisdom=%s): %s differs from the fresh-process result by %.2e of the field maximum (tol %.0e)"
                              % (name, pos, sig_hist, nthreads, bool(case.get("wisdom")), nm, e, tol)})
            for i, key in enumerate(("gx", "gy", "gz")):
                if not np.array_equal(g[i], refs[name][key]):
                    v.append({"sub": "vs-fresh", "sig": "vs-fresh-grid/%s" % name, "msg": "solve %s at position %d of history %s: grid[%d] differs from the fresh-process grid" % (name, pos, sig_hist, i)})
            if name == "C":
                d2 = np.load(os.path.join(refdir, "C.npz.double.npz"))
                for nm, a, b in (("conc", c, d2["c"]), ("flux", f, d2["f"])):
                    e = sl.relerr(a, b, max(np.abs(b).max(), 1e-300))
                    if not e <= 1e-5:
                        v.append({"sub": "single-vs-double", "sig": "single-vs-double", "msg": "single-precision %s differs from double precision by %.2e of the field maximum (history %s)" % (nm, e, sig_hist)})
            own = _ownership(kw, c, f, g)
            if own:
                v.append({"sub": "result-ownership", "sig": "result-ownership/%s" % own[0], "msg": "solve %s at position %d of history %s: %s" % (name, pos, sig_hist, own[1])})
            for (n2, t2, cb, fb, _, _) in runs:
                if n2 == name and t2 == nthreads and (cb != c.tobytes() or fb != f.tobytes()):
                    v.append({"sub": "bit-identity", "sig": "bit-identity/%s" % name,
                              "msg": "two executions of solve %s with %d thread(s) in history %s are not bit-identical" % (name, nthreads, sig_hist)})
                    break
            runs.append((name, nthreads, c.tobytes(), f.tobytes(), (c, f), pos))
            # ... and the caller now USES its coordinates: tower-relative x, y in place, heights above the first node (the
            # grid of a result is the caller's; whatever a later solve reports must not depend on this edit)
            for i, (a_, b_) in enumerate(((-17.25, 1.0), (3.5, 2.0), (-0.125, 1.0))):
                if isinstance(g[i], np.ndarray) and g[i].flags.writeable:
                    g[i] *= b_
                    g[i] += a_
    # (iv) earlier results must not have been touched by later calls
    for (name, t, cb, fb, (c, f), pos) in runs:
        if c.tobytes() != cb or f.tobytes() != fb:
            v.append({"sub": "aliasing", "sig": "aliasing/%s" % name,
                      "msg": "arrays returned by solve %s at position %d of history %s were modified by a later call (shared buffer)" % (name, pos, sig_hist)})
    st = global_state()
    st["wisdom_env"] = bool(case.get("wisdom"))
    key = hashlib.sha256(core.canon(st).encode()).hexdigest()[:20]
    nsolves = sum(1 for o in hist if o in SOLVES or "~" in o)
    return {"v": v[:6], "nt": nsolves > 0 and len(hist) > 1, "n": max(nsolves, 1), "state": key, "state_detail": st, "obs": {"state": key, "solves": nsolves}}


def run(ctx):
    core.warm_numba()
    global OPS
    if ctx.tier == "quick":
        OPS = [o for o in OPS if o != "T8"]
    depth = 3 if ctx.tier == "quick" else 4
    refdir = os.path.join(ctx.tmp_root, "refs")
    os.makedirs(refdir)
    callforms.run_solver_forms(ctx)
    errorpaths.run_caller_envs(ctx)
    core.run_forked(ctx, case_reference, [{"solve": s, "path": os.path.join(refdir, s + ".npz")} for s in SOLVES], sub="reference")
    seen = {}
    transitions = 0
    frontier = []
    roots = [{"history": [], "wisdom": w, "refdir": refdir} for w in (False, True)]
    res = core.forked_map(__name__, "case_history", roots, ctx.tmp_root)
    for c, r in zip(roots, res):
        if "harness_error" in r:
            raise core.HarnessError(r["harness_error"])
        seen.setdefault(r["state"], (c, r["state_detail"]))
        frontier.append(c)
    per_depth = []
    hist_count = 0
    maxdepth_done = 0
    for d in range(1, depth + 1):
        cases = [{"history": c["history"] + [op], "wisdom": c["wisdom"], "refdir": refdir} for c in frontier for op in OPS]
        res = core.run_forked(ctx, case_history, cases, sub="history-depth-%d" % d)
        nxt = []
        for c, r in zip(cases, res):
            transitions += 1
            hist_count += 1
            if r["state"] not in seen:
                seen[r["state"]] = (c, r["state_detail"])
                nxt.append(c)
        per_depth.append({"depth": d, "histories_run": len(cases), "new_states": len(nxt)})
        frontier = nxt
        maxdepth_done = d
        if not frontier:
            break
    # one-argument-deviation pairs: for every base solve X and every argument a, the histories [X~a, X] and [X, X~a]
    # (X~a = X with ONLY argument a changed), each in a pristine child: whatever the library remembers about a solve,
    # if the memory is keyed without argument a the second solve of one of the two histories comes out wrong
    bases = ("A", "E") if ctx.tier == "quick" else ("A", "C", "E", "D")
    tw = ["%s~%s" % (b, t) for b in bases for t in TWINS]
    core.run_forked(ctx, case_reference, [{"solve": n_, "path": os.path.join(refdir, n_ + ".npz")} for n_ in tw], sub="reference")
    pairs = []
    for n_ in tw:
        b_ = n_.split("~")[0]
        pairs += [{"history": [n_, b_], "wisdom": False, "refdir": refdir}, {"history": [b_, n_], "wisdom": False, "refdir": refdir}]
    pr = core.run_forked(ctx, case_history, pairs, sub="one-argument-pairs")
    hist_count += len(pairs)
    transitions += 2 * len(pairs)
    for c, r in zip(pairs, pr):
        seen.setdefault(r["state"], (c, r["state_detail"]))
    # error paths: every solve of the alphabet twice, in a pristine child, after a refused call / next to an unreadable wisdom file
    envh = [{"history": [s_, s_], "wisdom": False, "refdir": refdir, "env": e_} for e_ in errorpaths.ENVS for s_ in ("A", "B", "C", "D", "E")]
    core.run_forked(ctx, case_history, envh, sub="after a refused call / with an unreadable wisdom file")
    hist_count += len(envh)
    shared_nc = os.path.join(ctx.tmp_root, "numba_cache_threads_first")
    os.makedirs(shared_nc, exist_ok=True)
    thh = [{"history": [s_, s_], "wisdom": False, "refdir": refdir, "threads_first": k_, "numba_cache_dir": shared_nc} for k_ in (2, 3, 8) for s_ in ("A", "B", "C", "E", "K")]
    core.run_forked(ctx, case_history, thh[:1], sub="numerical threads > 1 from the first call on (threaded kernels really compiled)", timeout=1800)
    core.run_forked(ctx, case_history, thh[1:], sub="numerical threads > 1 from the first call on (threaded kernels really compiled)", timeout=1800)
    hist_count += len(thh)
    ctx.run_cases(errorpaths.case_blocked_pyfftw, [{"blocked": "pyfftw"}], sub="pyfftw cannot be imported: refuse or be right", chunksize=1)
    core.run_forked(ctx, case_repeat_extreme, [{"scale": sc_, "bg": bg_, "prec": pr_, "levels": lv_} for sc_, bg_, pr_, lv_ in itertools.product((1e41, 1e300, 1e-320, 0.0), (0.0, 1e38), ("single", "double"), (4, [2, 4]))],
                    sub="extreme magnitudes repeated in one process")
    core.run_forked(ctx, case_cache_race, [{"solves": ["E", "J"]}], sub="two processes sharing a cache directory (all interleavings, <= 2 preemptions)", nproc=4, timeout=1800)
    core.run_forked(ctx, case_repeat_interface, [{"mol": m_, "footprint": f_, "prec": p_} for m_ in (float("inf"), float("-inf"), 1e9, -40.0, 15.0) for f_ in (True, False) for p_ in ("double", "single")], sub="configuration-driven run repeated in one process")
    ctx.run_cases(case_precision, [{"z0": z0, "footprint": fp, "levels": lv} for z0, fp, lv in itertools.product(SMOOTH_Z0, (False, True), (6, [2, 6, 9]))], sub="single vs double over surface regimes")
    nodedup = None
    if ctx.tier != "quick":
        # validate the canonicalisation: complete depth-3 product WITHOUT deduplication from the no-wisdom root
        cases = [{"history": list(h), "wisdom": False, "refdir": refdir} for h in itertools.product(OPS, repeat=3)]
        r2 = core.run_forked(ctx, case_history, cases, sub="no-dedup-depth-3")
        nodedup = {"histories": len(cases), "distinct_states": len({r["state"] for r in r2}), "states_unknown_to_dedup_search": len({r["state"] for r in r2} - set(seen))}
        hist_count += len(cases)
        if nodedup["states_unknown_to_dedup_search"]:
            raise core.HarnessError("state canonicalisation is unsound: the un-deduplicated depth-3 run reached %d states the deduplicated search never saw" % nodedup["states_unknown_to_dedup_search"])
    ex = [{"history": c["history"], "wisdom": c["wisdom"], "state": k, "threads": (d["config.NUM_THREADS"], d["fft_manager.threads"], d["pyfftw.threads"], d["numba.threads"]), "plans": len(d["fftw_plans"])} for k, (c, d) in list(seen.items())[:8]]
    ctx.samples[:0] = [{"check": "state", "case": e, "observed": "first history reaching this canonical state"} for e in ex[:4]]
    ctx.cov.update({
        "states": len(seen),
        "transitions": transitions,
        "traces_validated_against_impl": hist_count,
        "depth_bound": depth,
        "depth_completed": maxdepth_done,
        "frontier_empty": not frontier,
        "per_depth": per_depth,
        "alphabet": list(OPS),
        "one_argument_pairs": len(pairs),
        "one_argument_twins": TWINS,
        "no_dedup_validation": nodedup,
        "state_key": "thread settings (bldfm.config, FFT manager, pyfftw, numba) + kernel-dictionary keys + FFTW plan-cache keys + digest of every non-callable module-level object / closure cell of bldfm.* + wisdom environment",
    })
    ctx.rule = (
        "BFS over histories: from every distinct canonical state reached at depth d every operation of the operation alphabet is executed (one pristine forked process per history, whole history replayed), "
        "from both wisdom environments, to depth %d; non-trivial = histories of length >= 2 containing at least one solve; distinct = distinct histories; evaluations counts solver executions" % depth
    )
    bigcases.run(ctx, "C12")
