"""C10 - each returned slice is the solution at the height the grid reports for it.

Alphabet: a 5-node column: ALL ordered selections of 1..3 distinct levels (85) and all
4! + ... permutations thereof are included by construction; scalar / list / ndarray
argument forms; a 17-node column: ascending, descending, interleaved, with-top
selections.  x {dispersion, footprint} x {numeric, analytic} x {double, single}.
Oracle: slice k == single-level solve of level k == slice of the full-column solve;
returned height of slice k == z[level k]."""

import itertools
import os

import numpy as np

from vf import bigcases
from vf import core
from vf import callforms
from vf import errorpaths
from vf import solverlib as sl

PROPERTY = "C10"
LEVEL = "exploration"
MANIFEST = {
    "technique": "bounded-exhaustive enumeration of all ordered level selections (length <= 3 of 5 nodes; structured selections of 17 nodes) x argument forms x modes; differential oracle (single-level and full-column solves)",
    "text": "Every ordered selection of up to three distinct levels of a five-node column (85 selections, so every permutation pattern occurs), plus ascending/descending/interleaved/with-top selections of a 17-node column, in scalar, list and ndarray form, is solved in footprint and dispersion mode, numerically and analytically, in both precisions; each returned slice and its reported height are compared with the single-level and the full-column solve.",
    "note": "Additionally every level set of size 2-3 is requested in all its orders (list and ndarray form, twice) through one attached result cache in footprint mode, so an order-insensitive cache key shows here as well as in C15. Slices are compared to 1e-12 (double) / 1e-6 (single) of the field maximum - the arithmetic per level is the same in all three calls; heights must be equal exactly.",
}


def column(nn, kind):
    z = 0.05 * (200.0) ** (np.arange(nn) / (nn - 1.0))  # geometric 0.05 .. 10
    if kind == "const":
        one = np.ones(nn)
        return z, (2.3 * one, -1.1 * one, 1.7 * one, 0.6 * one, 0.9 * one)
    s = 1.0 + np.log(z / z[0])
    K = 0.16 * z
    return z, (0.8 * s, 0.6 * s, 1.3 * K, 0.6 * K, K.copy())


def selections(tier):
    out = []
    for k in (1, 2, 3):
        for sel in itertools.permutations(range(5), k):
            out.append((5, list(sel)))
    if tier != "quick":
        for sel in itertools.permutations(range(5), 4):
            out.append((5, list(sel)))
        for sel in itertools.permutations(range(5), 5):
            out.append((5, list(sel)))
    big = [[0, 4, 8, 16], [16, 8, 4, 0], [8, 2, 5], [5, 16, 0, 9, 1], list(range(17)), list(range(16, -1, -1)), [16], [0], [15, 16], [16, 15], [3, 1, 2, 0]]
    out += [(17, s) for s in big]
    return out


def cases(tier):
    for (nn, sel) in selections(tier):
        for fp, an, pr in itertools.product((False, True), (False, True), ("double", "single")):
            if tier == "quick" and pr == "single" and not (len(sel) == 3 or nn == 17):
                continue
            yield {"nn": nn, "levels": sel, "footprint": fp, "analytic": an, "prec": pr}
            if len(sel) >= 2 and pr == "double":
                # the same request on a column with OTHER node heights (same domain, shape and level indices), in the same sweep
                yield {"nn": nn, "levels": sel, "footprint": fp, "analytic": an, "prec": pr, "zscale": 1.37}
            if an and (len(sel) == 3 or nn == 17):
                # cells much finer than the column is deep (0.5 m cells, nodes up to 10 m: the shortest waves decay by exp(-60)
                # between the lowest and the highest node) - analytic mode only, the shooting method has no digits left there
                yield {"nn": nn, "levels": sel, "footprint": fp, "analytic": an, "prec": pr, "cell": 0.5}


def subset_cases(tier):
    """EVERY ascending selection of 4 and 5 (thorough: 4 to 6) nodes of a taller column - regular strides, almost regular ones
    (first, second and last node on a stride, an interior one off it), runs, gaps - in numerical and analytic mode"""
    nn, sizes = (8, (4, 5)) if tier == "quick" else (10, (4, 5, 6))
    for k in sizes:
        for sel in itertools.combinations(range(nn), k):
            for fp, an in ((False, False), (True, False), (False, True)):
                if an and tier == "quick" and (sum(sel) % 3):
                    continue
                yield {"nn": nn, "levels": list(sel), "footprint": fp, "analytic": an, "prec": "double"}
    if tier == "quick":
        # as many levels as the source has columns (6), a few of the 28 selections (all of them in the thorough tier's 4-6 sweep)
        for sel in itertools.combinations(range(8), 6):
            if sum(sel) % 5 == 0:
                yield {"nn": 8, "levels": list(sel), "footprint": False, "analytic": False, "prec": "double"}


def case_levels(case):
    S0 = sl.solver()
    seed = int(os.environ.get("VERIF_SEED", "0") or 0)
    nn, sel = case["nn"], case["levels"]
    an, fp, pr = case["analytic"], case["footprint"], case["prec"]
    z, prof = column(nn, "const" if an else "var")
    z = z * case.get("zscale", 1.0)
    nx, ny, dom = 6, 4, (60.0, 60.0)
    if "cell" in case:
        dom = (nx * case["cell"], ny * 1.5 * case["cell"])
    sl.pollute(nx, ny, 10.0, 15.0)
    rng = core.case_rng(seed, "c10-source")
    q = rng.random((ny, nx))
    kw = dict(modes=(6, 4), halo=0.0, precision=pr, footprint=fp, analytic=an, meas_pt=(2 * dom[0] / nx, dom[1] / ny), srf_bg_conc=1.5)
    # "the k-th slice IS the array a single-level request returns": the arithmetic per level is the same whichever other levels
    # are requested with it, and on the unchanged tree every one of the ~30 000 comparisons of both tiers is bit-identical
    tol = 0.0
    cnt = [0]

    def S(levels):
        cnt[0] += 1
        g, c, f = S0(q, z, prof, dom, levels, **kw)
        return g, np.asarray(c), np.asarray(f)

    v = []
    nl = len(sel)
    forms = [("list", list(sel)), ("ndarray", np.array(sel))]
    if nl == 1:
        forms.append(("scalar", sel[0]))
        forms.append(("numpy-int", np.int64(sel[0])))
    gfull, cfull, ffull = S(list(range(nn)))
    singles = {l: S(l) for l in sel}
    scale_c, scale_f = max(np.abs(cfull).max(), 1e-300), max(np.abs(ffull).max(), 1e-300)
    for fname, arg in forms:
        g, c, f = S(arg)
        c3, f3 = sl.as3d(c, nl), sl.as3d(f, nl)
        Z = np.asarray(g[2])
        if c3.shape != (nl, ny, nx) or f3.shape != (nl, ny, nx):
            v.append({"sub": "shape", "sig": "shape/%s" % fname, "msg": "levels=%r (%s): output shape %s, expected %s; config %s" % (sel, fname, c3.shape, (nl, ny, nx), core.canon(case))})
            continue
        Z3 = Z.reshape(nl, ny, nx) if Z.size == nl * ny * nx else None
        for k, l in enumerate(sel):
            zk = None if Z3 is None else np.unique(Z3[k])
            if zk is None or len(zk) != 1 or zk[0] != z[l]:
                v.append({"sub": "height", "sig": "height/%s" % ("ascending" if sel == sorted(sel) else "unsorted"),
                          "msg": "levels=%r (%s): height reported for slice %d is %r, expected z[%d]=%r; config %s" % (sel, fname, k, None if zk is None else zk.tolist(), l, z[l], core.canon(case))})
            for nm, a, single, full, sc in (("conc", c3[k], singles[l][1], cfull[l], scale_c), ("flux", f3[k], singles[l][2], ffull[l], scale_f)):
                e1 = sl.relerr(a, single, sc)
                e2 = sl.relerr(a, full, sc)
                if not (e1 <= tol and e2 <= tol):
                    # which level does the slice actually hold?
                    held = [j for j in range(nn) if sl.relerr(a, (cfull if nm == "conc" else ffull)[j], sc) <= tol]
                    v.append({"sub": "slice", "sig": "slice/%s/%s" % ("ascending" if sel == sorted(sel) else "unsorted", "analytic" if an else "numeric"),
                              "msg": "levels=%r (%s): %s slice %d differs from the single-level solve of level %d by %.2e and from the full-column slice by %.2e (it matches level(s) %r); config %s"
                              % (sel, fname, nm, k, l, e1, e2, held, core.canon(case))})
    # absolute anchor (the comparisons above compare the library with itself): on the periodic domain (halo=0) the horizontal
    # mean of the concentration slice for node l is background - mean(source) x trapezoid resistance up to z[l]; in particular
    # the slice at the surface node carries the background
    if not fp:
        Rtr = sl.resistance_trapezoid(z, prof[4])
        want = 1.5 - q.mean() * Rtr[np.asarray(sel)]
        g_, c_, f_ = S(list(sel))
        got = sl.as3d(c_, nl).reshape(nl, -1).mean(axis=1).astype(float)
        tolm = (1e-10 if pr == "double" else 1e-5) * max(np.abs(want).max(), 1.5)
        if np.shape(got) != np.shape(want) or not np.all(np.abs(got - want) <= tolm):
            k_ = int(np.argmax(np.abs(got - want))) if np.shape(got) == np.shape(want) else 0
            v.append({"sub": "slice-mean", "sig": "slice-mean/%s" % ("surface" if sel[k_] == 0 else "aloft"), "msg": "levels=%r: mean concentration of slice %d (node %d, z=%.4g) is %.10g, background - mean source x resistance = %.10g; config %s" % (sel, k_, sel[k_], z[sel[k_]], got[k_] if np.shape(got) == np.shape(want) else float("nan"), want[k_], core.canon(case))})
    unsorted = sel != sorted(sel)
    return {"v": v[:6], "nt": True, "n": cnt[0], "obs": {"unsorted": unsorted, "forms": [f for f, _ in forms]}}


def cache_cases(tier):
    sets = [c for k in (2, 3) for c in itertools.combinations(range(5), k)]
    for sset in sets:
        for pr in (("double",) if tier == "quick" else ("double", "single")):
            yield {"set": list(sset), "prec": pr}


def case_cached(case):
    """the same level SET requested in every ORDER, one after the other, through one result cache (footprint mode):
    every answer must still be the slices of the requested levels in the requested order."""
    from bldfm.cache import GreensFunctionCache

    S0 = sl.solver()
    z, prof = column(5, "var")
    nx, ny, dom = 6, 4, (60.0, 60.0)
    q = np.zeros((ny, nx))
    kw = dict(modes=(6, 4), halo=13.0, precision=case["prec"], footprint=True, meas_pt=(20.0, 15.0))
    tol = 1e-12 if case["prec"] == "double" else 1e-6
    cdir = os.path.join(os.getcwd(), "c10cache_%s" % core.case_hash(case))
    cache = GreensFunctionCache(cdir)
    _, cfull, ffull = S0(q, z, prof, dom, list(range(5)), **kw)
    sc_c, sc_f = max(np.abs(cfull).max(), 1e-300), max(np.abs(ffull).max(), 1e-300)
    v = []
    n = 1
    orders = list(itertools.permutations(case["set"]))
    try:
        for rep in range(2):  # second round: everything is served from the cache
            for order in orders:
                for form in (list(order), np.array(order)):
                    g, c, f = S0(q, z, prof, dom, form, cache=cache, **kw)
                    n += 1
                    Z = np.asarray(g[2]).reshape(len(order), ny, nx)
                    for k, l in enumerate(order):
                        ok = np.all(Z[k] == z[l]) and sl.relerr(np.asarray(c)[k], cfull[l], sc_c) <= tol and sl.relerr(np.asarray(f)[k], ffull[l], sc_f) <= tol
                        if not ok:
                            held = [j for j in range(5) if sl.relerr(np.asarray(f)[k], ffull[j], sc_f) <= tol]
                            v.append({"sub": "cached-order", "sig": "cached-order/%s" % ("first-round" if rep == 0 else "served-from-cache"),
                                      "msg": "levels=%r requested through a cache that already holds the same level set in other orders %r: slice %d reports height %r and holds level(s) %r, requested level %d (z=%r)"
                                      % (list(order), [list(o) for o in orders[: orders.index(order)]], k, np.unique(Z[k]).tolist(), held, l, z[l])})
                            break
                    if len(v) >= 4:
                        break
    finally:
        import shutil

        shutil.rmtree(cdir, ignore_errors=True)
    return {"v": v[:4], "nt": True, "n": n, "obs": {"orders": len(orders)}}


def case_drivers(case):
    """the same claim through the configuration-driven drivers: with output_levels set and a forcing that changes the
    vertical grid from step to step (z0 follows ustar), every driver must report for every step and slice the height of
    THAT step's grid, i.e. what the single run of that step reports"""
    import warnings

    import bldfm.interface as itf
    from bldfm.config_parser import parse_config_dict

    cfg = parse_config_dict({
        "domain": {"nx": 6, "ny": 4, "xmax": 60.0, "ymax": 60.0, "nz": 4, "modes": [6, 4], "halo": 20.0, "output_levels": ([0] if case.get("late") else case["levels"])},
        "towers": [{"name": "p", "lat": 0.0, "lon": 0.0, "z_m": 5.0}, {"name": "q", "lat": 0.0, "lon": 0.0, "z_m": 8.0}],
        "met": {"ustar": [0.25, 0.45, 0.6], "mol": [-30.0, 200.0, -400.0], "wind_speed": 3.0, "wind_dir": [30.0, 120.0, 250.0]},
        "solver": {"footprint": case["footprint"], "precision": "double"},
    })
    for t, xy in zip(cfg.towers, ((20.0, 15.0), (40.0, 45.0))):
        t.x, t.y = xy
    if case.get("late"):
        # the output request is changed on the live configuration object AFTER it was built (one object, several requests)
        cfg.domain.output_levels = list(case["levels"])
    v = []
    n = 0
    with warnings.catch_warnings():
        warnings.simplefilter("ignore")
        ref = {t.name: [itf.run_bldfm_single(cfg, t, met_index=i) for i in range(3)] for t in cfg.towers}
        # the single run itself against the documented pipeline: slice k sits at node levels[k] of THAT step's column
        from bldfm.pbl_model import vertical_profiles
        from bldfm.utils import compute_wind_fields

        for t in cfg.towers:
            for i in range(3):
                m = cfg.met.get_step(i)
                zcol = np.asarray(vertical_profiles(4, t.z_m, compute_wind_fields(m["wind_speed"], m["wind_dir"]), ustar=m["ustar"], mol=m["mol"])[0])
                Z = np.asarray(ref[t.name][i]["grid"][2])
                hs = [float(np.unique(zz)[0]) if np.unique(zz).size == 1 else None for zz in (Z if Z.ndim == 3 else Z[None])]
                if hs != [float(zcol[l]) for l in case["levels"]]:
                    v.append({"sub": "driver-heights", "sig": "driver-heights/single%s" % ("/late-request" if case.get("late") else ""), "msg": "single run, tower %s, step %d, output_levels %r%s: slices at heights %s, the column has %s there"
                              % (t.name, i, case["levels"], " (set after construction)" if case.get("late") else "", hs, [round(float(zcol[l]), 6) for l in case["levels"]])})
                    break
        runs = {"multitower": itf.run_bldfm_multitower(cfg)}
        for strat in ("towers", "time", "both"):
            runs["parallel-" + strat] = itf.run_bldfm_parallel(cfg, max_workers=2, parallel_over=strat)
    for how, res in runs.items():
        for t in cfg.towers:
            for i in range(3):
                n += 1
                got, want = res[t.name][i], ref[t.name][i]
                if not (np.array_equal(np.asarray(got["grid"][2]), np.asarray(want["grid"][2])) and np.array_equal(np.asarray(got["flx"]), np.asarray(want["flx"]))):
                    v.append({"sub": "driver-heights", "sig": "driver-heights/%s" % how.split("-")[0], "msg": "%s, tower %s, step %d, levels %r: reported heights %s, the single run of that step reports %s" % (how, t.name, i, case["levels"], np.unique(np.asarray(got["grid"][2])).round(4).tolist(), np.unique(np.asarray(want["grid"][2])).round(4).tolist())})
                    break
    return {"v": v[:4], "nt": n, "key": core.canon(case), "n": n}


def run(ctx):
    os.environ["VERIF_SEED"] = str(ctx.seed)
    core.warm_numba()
    ctx.rule = (
        "all ordered selections of 1..3 distinct levels of a 5-node column (thorough: all lengths up to 5) + 11 structured selections of a 17-node column, "
        "x {dispersion, footprint} x {numeric, analytic} x {double, single (quick: only for 3-level and 17-node selections)}; each in list and ndarray form "
        "(scalar and numpy-int forms for single levels); distinct = distinct (selection, mode) tuples; all non-trivial; evaluations counts solver executions"
    )
    callforms.run_solver_forms(ctx)
    errorpaths.run(ctx, case_levels, [c for c in cases(ctx.tier) if len(c['levels']) == 3 and c['prec'] == 'double' and 'cell' not in c and 'zscale' not in c][:4])
    errorpaths.run_threaded(ctx, case_levels, [c for c in cases(ctx.tier) if len(c['levels']) == 3 and c['prec'] == 'double' and not c['analytic'] and 'cell' not in c and 'zscale' not in c][:2], threads=(3,))
    ctx.run_cases(errorpaths.case_blocked_pyfftw, [{"blocked": "pyfftw"}], sub="pyfftw cannot be imported: refuse or be right", chunksize=1)
    res = ctx.run_cases(case_levels, cases(ctx.tier), sub="levels")
    ctx.run_cases(case_levels, subset_cases(ctx.tier), sub="every ascending selection of 4-5 (thorough 4-6) nodes of an 8- (10-) node column")
    ctx.run_cases(case_cached, cache_cases(ctx.tier), sub="levels-through-cache")
    ctx.run_cases(case_drivers, [{"levels": lv, "footprint": fp, "late": late} for lv in ([1, 3], [4, 0, 2], [0]) for fp in (True, False) for late in (False, True) if not (late and lv == [0])], sub="levels-through-drivers", chunksize=1)
    ctx.cov["unsorted_selections_cases"] = int(sum(1 for r in res if r.get("obs", {}).get("unsorted")))
    bigcases.run(ctx, "C10")
