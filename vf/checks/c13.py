"""C13 - a config-driven run equals the explicit wind -> profiles -> source -> solver pipeline.

Configuration space (default first on every axis): closure {MOST, MOSTM, CONSTANT, OAAHOC}; precision;
footprint; analytic; halo {None, 20, 13, 0.0, 0}; modes {(8,6), (4,4), (64,64)}; levels {default, output_levels
[1,3], [3,1], full_output}; forcing {ustar, z0 only, z0 and ustar}; each of ustar / mol / wind_speed /
wind_dir scalar or list; timestamps {absent, list}; towers {1, 2 with different heights and positions};
reference origin {present, absent}; whole numbers written as floats or as integers; source {ideal diamond, circle, point, point with src_loc,
user-supplied array}.  Enumeration: EVERY configuration that deviates from the default in at most d axes
(d = 0, 1, 2 quick; 3 thorough) x EVERY tower x EVERY time index.
Oracle: the hand-written pipeline compute_wind_fields -> vertical_profiles -> ideal_source ->
steady_state_transport_solver with the same numbers: grid / conc / flx bit-equal (same process), name,
coordinates, timestamp and params equal; both sides raising the same exception type is agreement.
YAML: yaml.safe_dump -> load_config == parse_config_dict."""

import copy
import itertools
import os
import warnings

import numpy as np

from vf import bigcases
from vf import core

PROPERTY = "C13"
LEVEL = "exploration"
MANIFEST = {
    "technique": "deviation-bounded exhaustive enumeration of the configuration space (all configurations within <= d axis deviations of the default, d iterated) x every tower x every time index; differential oracle (hand-written low-level pipeline)",
    "text": "Every configuration that differs from the default in at most two (thorough: three) of 19 axes is parsed and run for every tower and time index through run_bldfm_single and through the documented low-level pipeline written out by hand; the two must agree bit for bit and label for label. Dropped or swapped arguments (halo, modes, analytic, precision, levels, tower coordinates, time index, z0/ustar precedence) cannot hide because each axis has a non-default value that changes the result.",
    "note": "Bound: deviation depth d (2 quick / 3 thorough), reported. The oracle pipeline uses the library's own low-level functions (that is the property: high level == low level), so errors inside those functions are other properties' business.",
}

DEFAULT = {
    "domain": {"nx": 8, "ny": 6, "xmax": 80.0, "ymax": 90.0, "nz": 4, "modes": [8, 6], "ref_lat": 50.0, "ref_lon": 10.0},
    "towers": [{"name": "a", "lat": 50.0002, "lon": 10.0003, "z_m": 5.0}],
    "met": {"ustar": 0.4, "mol": -50.0, "wind_speed": 3.0, "wind_dir": 200.0},
    "solver": {},
}
TWO = [{"name": "a", "lat": 50.0002, "lon": 10.0003, "z_m": 5.0}, {"name": "b", "lat": 50.0004, "lon": 10.0001, "z_m": 8.0}]
TWO_NUM = [{"name": "101", "lat": 50.0002, "lon": 10.0003, "z_m": 5.0}, {"name": "1e5", "lat": 50.0004, "lon": 10.0001, "z_m": 8.0}]
AXES = {
    "closure": [("solver", "closure", v) for v in ("MOSTM", "CONSTANT", "OAAHOC")],
    "precision": [("solver", "precision", "double")],
    "footprint": [("solver", "footprint", True)],
    "analytic": [("solver", "analytic", True)],
    "halo": [("domain", "halo", 20.0), ("domain", "halo", 13.0), ("domain", "halo", 0.0), ("domain", "halo", 0)],
    "modes": [("domain", "modes", [4, 4]), ("domain", "modes", [64, 64])],
    "levels": [("domain", "output_levels", [1, 3]), ("domain", "output_levels", [3, 1]), ("domain", "output_levels", [0]), ("domain", "full_output", True)],
    "forcing": [("met", "z0", 0.1), ("met", "__z0_only", 0.05)],
    "list-wind_dir": [("met", "wind_dir", [10.0, 200.0, 300.0]), ("met", "wind_dir", 0.0), ("met", "wind_dir", [0.0, 0.0, 90.0])],
    "list-ustar": [("met", "ustar", [0.3, 0.4, 0.5])],
    "list-mol": [("met", "mol", [-50.0, 1e9, 80.0])],
    "list-wind_speed": [("met", "wind_speed", [2.0, 3.0, 4.5])],
    # labels that LOOK like numbers stay the strings they are (a station called "101", a step labelled "1e3" or "007")
    "timestamps": [("met", "timestamps", ["t0", "t1", "t2"]), ("met", "timestamps", ["20240101", "1e3", "007"])],
    "towers": [("towers", None, TWO), ("towers", None, TWO_NUM)],
    # other physical regimes: a low mast in the same domain (domain >> 100 z_m), very smooth and very rough surfaces,
    # very stable / very unstable stratification (z_m/L = 2.5, -3.3), light turbulence
    "regime": [("__zm", None, 0.5), ("met", "__z0_only", 2e-4), ("met", "__z0_only", 2.5), ("met", "mol", 2.0), ("met", "mol", -1.5), ("met", "ustar", 0.08)],
    "origin": [("domain", "__no_origin", None)],
    "integers": [("__ints", None, True)],
    "met-defaults": [("met", "__omit", ["mol", "wind_speed", "wind_dir"]), ("met", "__omit", ["mol"]), ("met", "__omit", ["wind_dir"])],
    "square-grid": [("domain", "__square", 6)],
    # an odd cell count with a truncating mode request: the low-level pipeline refuses it (C11), so must the run
    "odd-grid": [("domain", "__odd", 7)],
    "source": [("solver", "surface_flux_shape", "circle"), ("solver", "surface_flux_shape", "point"), ("solver", "src_loc", [30.0, 20.0]), ("solver", "src_loc", [0.0, 0.0]), ("__user_flux", None, True), ("__user_flux", None, "other-grid")],
}


def apply(devs):
    d = copy.deepcopy(DEFAULT)
    user_flux = False
    for sec, key, val in devs:
        if sec == "towers":
            d["towers"] = copy.deepcopy(val)
        elif sec == "__user_flux":
            user_flux = val
        elif sec == "__ints" or sec == "__zm":
            pass  # applied at the end
        elif key == "__z0_only":
            d["met"].pop("ustar", None)
            d["met"]["z0"] = val
        elif key == "__omit":
            for k_ in val:
                d["met"].pop(k_, None)
        elif key == "__square":
            d["domain"]["nx"], d["domain"]["ny"], d["domain"]["modes"] = val, val, [val, val]
        elif key == "__odd":
            d["domain"]["nx"], d["domain"]["modes"] = val, [4, 4]
        elif key == "__no_origin":
            d["domain"].pop("ref_lat")
            d["domain"].pop("ref_lon")
        else:
            d[sec][key] = copy.deepcopy(val)
    for sec, _, val in devs:
        if sec == "__zm":
            for t in d["towers"]:
                t["z_m"] = val * t["z_m"] / 5.0
    if any(sec == "__ints" for sec, _, _ in devs):
        # every whole number written as an integer (what yaml.safe_load returns for `wind_speed: 3`, `xmax: 80`, `z_m: 5`, `halo: 20`)
        def ints(o):
            if isinstance(o, float) and o.is_integer() and abs(o) < 1e6:
                return int(o)
            if isinstance(o, list):
                return [ints(x) for x in o]
            if isinstance(o, dict):
                return {k: ints(v) for k, v in o.items()}
            return o

        d = ints(d)
    if "timestamps" in d["met"]:  # one label per step
        n = 3 if any(isinstance(d["met"].get(k), list) for k in ("ustar", "mol", "wind_speed", "wind_dir")) else 1
        d["met"]["timestamps"] = d["met"]["timestamps"][:n]
    return d, user_flux


def combos(dmax):
    names = list(AXES)
    out = [()]
    for k in range(1, dmax + 1):
        for axes in itertools.combinations(names, k):
            for pick in itertools.product(*[AXES[a] for a in axes]):
                out.append(tuple(pick))
    return out


def manual(cfg, tower, i, surface_flux):
    from bldfm.pbl_model import vertical_profiles
    from bldfm.solver import steady_state_transport_solver as S
    from bldfm.utils import compute_wind_fields, ideal_source

    m = cfg.met.get_step(i)
    u, v = compute_wind_fields(m["wind_speed"], m["wind_dir"])
    kw = dict(z0=m["z0"]) if m.get("z0") is not None else dict(ustar=m["ustar"])
    z, prof = vertical_profiles(cfg.domain.nz, tower.z_m, (u, v), mol=m["mol"], closure=cfg.solver.closure, **kw)
    q = surface_flux if surface_flux is not None else ideal_source((cfg.domain.nx, cfg.domain.ny), (cfg.domain.xmax, cfg.domain.ymax), src_loc=cfg.solver.src_loc, shape=cfg.solver.surface_flux_shape)
    if cfg.domain.output_levels:
        lv = cfg.domain.output_levels
    elif cfg.domain.full_output:
        lv = list(range(cfg.domain.nz + 1))
    else:
        lv = cfg.domain.nz
    out = S(q, z, prof, (cfg.domain.xmax, cfg.domain.ymax), lv, modes=cfg.domain.modes, meas_pt=(tower.x, tower.y), footprint=cfg.solver.footprint,
            analytic=cfg.solver.analytic, halo=cfg.domain.halo, precision=cfg.solver.precision)
    return out, m


def case_config(case):
    import yaml

    from bldfm.config_parser import load_config, parse_config_dict
    from bldfm.interface import run_bldfm_single

    devs = [tuple(x) for x in case["devs"]]
    raw, user_flux = apply(devs)
    lab = "deviations %s" % (case["devs"],)
    v = []
    n = 0
    try:
        cfg = parse_config_dict(copy.deepcopy(raw))
    except Exception as e:
        # the property speaks about valid configurations; which ones are valid is C16's business
        return {"v": [], "nt": False, "n": 1, "obs": {"rejected": repr(e)}}
    # YAML file == dict
    path = os.path.join(os.getcwd(), "c_%s.yaml" % core.case_hash(case))
    with open(path, "w") as f:
        yaml.safe_dump(raw, f)
    try:
        cfg2 = load_config(path)
        if cfg2 != cfg:
            v.append({"sub": "yaml", "sig": "yaml", "msg": "load_config(yaml.safe_dump(d)) != parse_config_dict(d); %s" % lab})
    finally:
        os.unlink(path)
    # labels are taken over as given (same value AND same type), from the dictionary and from the file
    for which, c_ in (("dictionary", cfg), ("YAML file", cfg2)):
        got_names = [t.name for t in c_.towers]
        want_names = [t["name"] for t in raw["towers"]]
        if [(type(a), a) for a in got_names] != [(type(a), a) for a in want_names]:
            v.append({"sub": "labels", "sig": "labels/tower-names", "msg": "tower names %r parsed from the %s as %r; %s" % (want_names, which, got_names, lab)})
        if "timestamps" in raw["met"]:
            got_ts = [c_.met.get_step(i)["timestamp"] for i in range(c_.met.n_timesteps)]
            if [(type(a), a) for a in got_ts] != [(type(a), a) for a in raw["met"]["timestamps"]]:
                v.append({"sub": "labels", "sig": "labels/timestamps", "msg": "timestamps %r parsed from the %s as %r; %s" % (raw["met"]["timestamps"], which, got_ts, lab)})
    q_user = None
    if user_flux:
        # a field on the configured grid, or (documented low-level behaviour: the grid is the array's) on a finer one
        shp = (cfg.domain.ny, cfg.domain.nx) if user_flux is True else (cfg.domain.ny + 4, cfg.domain.nx + 2)
        q_user = core.case_rng(0, "c13-user-flux").random(shp) + np.arange(shp[1])[None, :]
    runs = 0
    for tw in cfg.towers:
        for i in range(cfg.met.n_timesteps):
            n += 2
            with warnings.catch_warnings():
                warnings.simplefilter("ignore")
                before = copy.deepcopy(cfg)
                q_before = None if q_user is None else q_user.copy()
                try:
                    r = run_bldfm_single(cfg, tw, met_index=i, surface_flux=q_user)
                    e1 = None
                except Exception as e:
                    r, e1 = None, type(e).__name__
                if cfg != before or (q_user is not None and not np.array_equal(q_user, q_before)):
                    v.append({"sub": "config-modified", "sig": "config-modified", "msg": "tower %s step %d: the run changed the configuration object (or the supplied flux) it was given: %s; %s"
                              % (tw.name, i, [f for f in ("domain", "towers", "met", "solver", "output", "parallel") if getattr(cfg, f) != getattr(before, f)], lab)})
                    cfg = copy.deepcopy(before)
                    tw = [t for t in cfg.towers if t.name == tw.name][0]
                try:
                    (g, c, f), m = manual(cfg, tw, i, q_user)
                    e2 = None
                except Exception as e:
                    e2 = type(e).__name__
            if e1 or e2:
                if e1 != e2:
                    v.append({"sub": "exception", "sig": "exception-mismatch", "msg": "tower %s step %d: high-level run %s, pipeline %s; %s" % (tw.name, i, e1 or "returned", e2 or "returned", lab)})
                continue
            runs += 1
            diffs = []
            for k, (a, b) in enumerate(zip(r["grid"], g)):
                if not (np.shape(a) == np.shape(b) and np.array_equal(a, b)):
                    diffs.append("grid[%d]" % k)
            for nm, a, b in (("conc", r["conc"], c), ("flx", r["flx"], f)):
                if not (np.shape(a) == np.shape(b) and np.asarray(a).dtype == np.asarray(b).dtype and np.array_equal(a, b, equal_nan=True)):
                    sc = max(np.nanmax(np.abs(b)), 1e-300) if np.shape(a) == np.shape(b) else 1
                    diffs.append("%s (%s)" % (nm, "shape %s vs %s" % (np.shape(a), np.shape(b)) if np.shape(a) != np.shape(b) else "max rel diff %.2e" % (np.nanmax(np.abs(np.asarray(a) - b)) / sc)))
            if r["tower_name"] != tw.name:
                diffs.append("tower_name %r" % (r["tower_name"],))
            if r["tower_xy"] != (tw.x, tw.y):
                diffs.append("tower_xy %r != %r" % (r["tower_xy"], (tw.x, tw.y)))
            if r["timestamp"] != m["timestamp"]:
                diffs.append("timestamp %r != %r" % (r["timestamp"], m["timestamp"]))
            if r["params"] != m:
                diffs.append("params %r != %r" % (r["params"], m))
            if diffs:
                v.append({"sub": "pipeline", "sig": "pipeline/%s" % diffs[0].split(" ")[0], "msg": "tower %s step %d: high-level run differs from the hand-written pipeline in %s; %s" % (tw.name, i, ", ".join(diffs), lab)})
    if len(devs) <= 1 and cfg.towers:
        # the tower is the CALLER'S object: a same-named copy of the first configured tower, one boom higher and a few metres
        # away (a what-if run) - "the tower's height ... the tower's local coordinates as measurement point"
        import dataclasses

        t0 = cfg.towers[0]
        tw2 = dataclasses.replace(t0, z_m=t0.z_m + 1.5, x=(t0.x or 0.0) + 7.5, y=(t0.y or 0.0) + 5.0)
        n += 2
        with warnings.catch_warnings():
            warnings.simplefilter("ignore")
            try:
                r2 = run_bldfm_single(cfg, tw2, met_index=0, surface_flux=q_user)
                (g2, c2, f2), m2 = manual(cfg, tw2, 0, q_user)
            except Exception:  # noqa - a what-if tower the library or the pipeline refuses: nothing to compare
                r2 = None
        if r2 is not None:
            bad = [nm for nm, a, b in (("conc", r2["conc"], c2), ("flx", r2["flx"], f2)) if not (np.shape(a) == np.shape(b) and np.array_equal(a, b, equal_nan=True))]
            if r2["tower_xy"] != (tw2.x, tw2.y):
                bad.append("tower_xy %r != %r" % (r2["tower_xy"], (tw2.x, tw2.y)))
            if bad:
                v.append({"sub": "pipeline", "sig": "pipeline/own-tower", "msg": "a same-named copy of tower %s with z_m=%g at (%g, %g) handed to the run: differs from the pipeline for THAT tower's numbers in %s; %s" % (t0.name, tw2.z_m, tw2.x, tw2.y, ", ".join(bad), lab)})
    return {"v": v[:5], "nt": runs if runs else 1, "key": core.canon(case), "n": n, "obs": {"tower_step_runs_compared": runs, "towers": len(cfg.towers), "steps": cfg.met.n_timesteps}}


def case_full_output_sweep(case):
    """full_output over a lattice of measurement heights, layer counts and forcings (the generated column's node nz sits at
    the measurement height only up to rounding): the run returns every node 0..nz, exactly as the pipeline with levels=range(nz+1)"""
    import copy

    from bldfm.config_parser import parse_config_dict
    from bldfm.interface import run_bldfm_single

    v = []
    n = 0
    zm = case["zm"]
    for nz, us, mol, fp in itertools.product((3, 4, 8, 12), (0.2, 0.3, 0.45), (-100.0, -30.0, 1e9, 80.0), (True, False)):
        raw = copy.deepcopy(DEFAULT)
        raw["domain"].update({"nz": nz, "full_output": True})
        raw["towers"][0]["z_m"] = zm
        raw["met"].update({"ustar": us, "mol": mol})
        raw["solver"] = {"footprint": fp}
        cfg = parse_config_dict(raw)
        n += 2
        with warnings.catch_warnings():
            warnings.simplefilter("ignore")
            r = run_bldfm_single(cfg, cfg.towers[0])
            (g, c, f), m = manual(cfg, cfg.towers[0], 0, None)
        if np.shape(r["conc"]) != np.shape(c) or np.shape(c)[0] != nz + 1 or not (np.array_equal(r["conc"], c) and np.array_equal(r["flx"], f) and np.array_equal(r["grid"][2], g[2])):
            v.append({"sub": "full-output", "sig": "full-output/%s" % ("shape" if np.shape(r["conc"]) != np.shape(c) else "values"),
                      "msg": "full_output, z_m=%g nz=%d ustar=%g mol=%g %s: the run returns shape %s, the pipeline with levels 0..%d returns %s" % (zm, nz, us, mol, "footprint" if fp else "dispersion", np.shape(r["conc"]), nz, np.shape(c))})
            if len(v) >= 3:
                break
    return {"v": v, "nt": True, "n": n}


def case_broken_cache(case):
    """a run that is handed a cache whose directory disappears (or turns into a plain file) in the middle of a series:
    every later step either raises or is the pipeline for THAT step - never another step's result"""
    import copy
    import shutil

    from bldfm.cache import GreensFunctionCache
    from bldfm.config_parser import parse_config_dict
    from bldfm.interface import run_bldfm_single

    raw, _ = apply([("met", "wind_dir", [10.0, 200.0, 300.0]), ("met", "ustar", [0.3, 0.4, 0.5]), ("met", "timestamps", ["t0", "t1", "t2"]), ("solver", "footprint", True)] + [tuple(x) for x in case.get("devs", [])])
    cfg = parse_config_dict(copy.deepcopy(raw))
    cdir = os.path.join(os.getcwd(), "bc_%s" % core.case_hash(case))
    shutil.rmtree(cdir, ignore_errors=True)
    cache = GreensFunctionCache(cdir)
    v = []
    n = 0
    tw = cfg.towers[0]
    order = case["order"]
    try:
        for k, i in enumerate(order):
            if k == case["break_at"]:
                shutil.rmtree(cdir, ignore_errors=True)
                if case["how"] == "file":
                    open(cdir, "w").close()
            n += 2
            with warnings.catch_warnings():
                warnings.simplefilter("ignore")
                try:
                    r = run_bldfm_single(cfg, tw, met_index=i, cache=cache)
                except Exception:
                    continue  # refused: nothing delivered
                (g, c, f), m = manual(cfg, tw, i, None)
            bad = []
            if not (np.shape(r["conc"]) == np.shape(c) and np.array_equal(r["conc"], c) and np.array_equal(r["flx"], f)):
                bad.append("fields")
            if r["timestamp"] != m["timestamp"] or r["params"] != m:
                bad.append("timestamp %r / params (step %d has %r)" % (r["timestamp"], i, m["timestamp"]))
            if bad:
                v.append({"sub": "broken-cache", "sig": "broken-cache/%s" % bad[0].split()[0], "msg": "steps %r with one cache object whose directory %s before call %d: the run of step %d returned, but differs from the pipeline for that step in %s"
                          % (order, "vanished" if case["how"] == "gone" else "was replaced by a file", case["break_at"], i, "; ".join(bad))})
                break
    finally:
        if os.path.isdir(cdir):
            shutil.rmtree(cdir, ignore_errors=True)
        elif os.path.exists(cdir):
            os.unlink(cdir)
    return {"v": v, "nt": True, "n": n}


def case_cache_race(case):
    """run == hand-written pipeline while two pool workers (forked, each with its own cache object on ./.bldfm_cache) store
    their footprints at the same time, under every preemption-bounded interleaving of their file operations; and for the
    serial run that is served from the directory afterwards"""
    import copy

    from bldfm.cache import GreensFunctionCache
    from bldfm.config_parser import parse_config_dict
    from bldfm.interface import run_bldfm_single
    from vf import cacherace

    raw, _ = apply([("towers", None, TWO), ("solver", "footprint", True), ("met", "wind_dir", [10.0, 200.0, 300.0])])
    cfg = parse_config_dict(copy.deepcopy(raw))
    want = {}
    for tw in cfg.towers:
        (g, c, f), m = manual(cfg, tw, case["step"], None)
        want[tw.name] = (g, c, f, m)

    def diff(name, r):
        g, c, f, m = want[name]
        if not (np.shape(r["conc"]) == np.shape(c) and np.array_equal(r["conc"], c) and np.array_equal(r["flx"], f)):
            return "fields of tower %s differ from the pipeline" % name
        if r["tower_name"] != name or r["timestamp"] != m["timestamp"] or r["params"] != m:
            return "labels of tower %s differ from the pipeline" % name
        return None

    def mk(k):
        def run(cdir):
            r = run_bldfm_single(cfg, cfg.towers[k], met_index=case["step"], cache=GreensFunctionCache(cdir))
            return {kk: r[kk] for kk in ("conc", "flx", "tower_name", "timestamp", "params")}
        return run

    def after(cdir):
        msgs = []
        cache = GreensFunctionCache(cdir)
        for tw in cfg.towers:
            d = diff(tw.name, run_bldfm_single(cfg, tw, met_index=case["step"], cache=cache))
            if d:
                msgs.append("a later run served from the directory: " + d)
        return msgs

    return cacherace.explore([(tw.name, mk(k)) for k, tw in enumerate(cfg.towers)], diff, after, bound=2, what="single runs of two towers, step %d, with a shared cache directory" % case["step"])


MUT_OPS = ["run0", "run1", "set-wind_dir", "set-ustar", "set-halo", "edit-returned-params", "move-tower", "rescale-domain", "set-levels", "set-full_output", "set-nz"]


def case_mutation_history(case):
    """ONE configuration object used over a session: runs of step 0 / 1 interleaved with in-place edits of the forcing,
    of a domain option, of a tower, and with the caller editing the params dict a run returned.  After every edit the
    next run must be the pipeline for the numbers the configuration holds NOW.  The expected step values come from the
    harness' own record of those numbers (vf/oracles/metseries.py), not from the configuration object."""
    import copy

    from bldfm.config_parser import parse_config_dict
    from bldfm.interface import run_bldfm_single
    from bldfm.pbl_model import vertical_profiles
    from bldfm.solver import steady_state_transport_solver as S
    from bldfm.utils import compute_wind_fields, ideal_source
    from vf.oracles import metseries

    raw, _ = apply([("met", "wind_dir", [10.0, 200.0, 300.0]), ("met", "ustar", [0.3, 0.4, 0.5]), ("solver", "footprint", True)])
    cfg = parse_config_dict(copy.deepcopy(raw))
    met = copy.deepcopy(raw["met"])  # the harness' own record of the forcing
    halo = raw["domain"].get("halo")
    tower_xy = (cfg.towers[0].x, cfg.towers[0].y)
    dom_xy = (80.0, 90.0)
    last = None
    v = []
    n = 0
    bump = 0
    out_levels, full_out, nz = None, False, 4  # the harness' own record of the output request
    for k, op in enumerate(case["ops"]):
        if op == "set-levels":
            out_levels = [3, 1] if out_levels is None else ([2] if out_levels == [3, 1] else None)
            cfg.domain.output_levels = None if out_levels is None else list(out_levels)
        elif op == "set-full_output":
            full_out = not full_out
            cfg.domain.full_output = full_out
        elif op == "set-nz":
            nz = 6 if nz == 4 else 4
            cfg.domain.nz = nz
        elif op == "set-wind_dir":
            bump += 1
            met["wind_dir"][0] = 40.0 + 25.0 * bump
            cfg.met.wind_dir[0] = met["wind_dir"][0]
        elif op == "set-ustar":
            bump += 1
            met["ustar"] = [0.35 + 0.02 * bump, 0.45, 0.55]
            cfg.met.ustar = list(met["ustar"])
        elif op == "set-halo":
            halo = 13.0 if halo != 13.0 else 20.0
            cfg.domain.halo = halo
        elif op == "rescale-domain":
            dom_xy = (dom_xy[0] * 1.5, dom_xy[1] * 1.5)
            cfg.domain.xmax, cfg.domain.ymax = dom_xy
        elif op == "move-tower":
            tower_xy = (tower_xy[0] + 10.0, tower_xy[1] + 5.0)
            cfg.towers[0].x, cfg.towers[0].y = tower_xy
        elif op == "edit-returned-params":
            if last is not None:
                for kk in list(last["params"]):
                    last["params"][kk] = "edited-by-caller"
        else:
            i = int(op[-1])
            n += 1
            exp = metseries.steps(met)[i]
            with warnings.catch_warnings():
                warnings.simplefilter("ignore")
                r = run_bldfm_single(cfg, cfg.towers[0], met_index=i)
                u, w = compute_wind_fields(exp["wind_speed"], exp["wind_dir"])
                z, prof = vertical_profiles(nz, cfg.towers[0].z_m, (u, w), ustar=exp["ustar"], mol=exp["mol"], closure="MOST")
                q = ideal_source((8, 6), dom_xy, src_loc=None, shape="diamond")
                lv = out_levels if out_levels else (list(range(nz + 1)) if full_out else nz)
                g, c, f = S(q, z, prof, dom_xy, lv, modes=(8, 6), meas_pt=tower_xy, footprint=True, halo=halo, precision="single")
            diffs = []
            if not (np.shape(r["conc"]) == np.shape(c) and np.array_equal(r["conc"], c) and np.array_equal(r["flx"], f)):
                diffs.append("fields (shape %s, requested levels %r give %s)" % (np.shape(r["conc"]), lv, np.shape(c)))
            elif not all(np.array_equal(a_, b_) for a_, b_ in zip(r["grid"], g)):
                diffs.append("grid (heights of the returned slices)")
            if any(r["params"].get(kk) != vv for kk, vv in exp.items()):
                diffs.append("params %r" % ({kk: r["params"].get(kk) for kk in exp},))
            if r["timestamp"] != exp["timestamp"] or r["tower_xy"] != tower_xy:
                diffs.append("timestamp/tower_xy %r %r" % (r["timestamp"], r["tower_xy"]))
            if diffs:
                v.append({"sub": "mutation-history", "sig": "mutation-history/%s" % diffs[0].split()[0], "msg": "after the session %s the run of step %d differs from the pipeline for the numbers the configuration holds now (forcing %r, halo %r, tower %r) in %s" % (case["ops"][: k + 1], i, met, halo, tower_xy, "; ".join(diffs))})
                break
            last = r
    return {"v": v, "nt": n >= 2, "n": 2 * n}


HIST_OPS = [
    {"devs": []},
    {"devs": [["solver", "src_loc", [30.0, 20.0]]]},
    {"devs": [["solver", "src_loc", [55.0, 60.0]]]},
    {"devs": [["solver", "surface_flux_shape", "circle"]]},
    {"devs": [["solver", "footprint", True], ["domain", "halo", 13.0]]},
    {"devs": [["solver", "footprint", True], ["domain", "output_levels", [3, 1]]]},
    {"devs": [["towers", None, TWO], ["met", "wind_dir", [10.0, 200.0, 300.0]]], "tower": 1, "step": 2},
    {"devs": [["met", "z0", 0.1], ["solver", "closure", "MOSTM"]]},
    {"devs": [["met", "__omit", ["mol", "wind_speed", "wind_dir"]]]},
    {"devs": [["met", "mol", 120.0], ["met", "wind_speed", 7.5]]},
]


def hist_op(i):
    from bldfm.config_parser import parse_config_dict
    from bldfm.interface import run_bldfm_single

    op = HIST_OPS[i]
    raw, _ = apply([tuple(x) for x in op["devs"]])
    cfg = parse_config_dict(raw)
    with warnings.catch_warnings():
        warnings.simplefilter("ignore")
        r = run_bldfm_single(cfg, cfg.towers[op.get("tower", 0)], met_index=op.get("step", 0))
    return (tuple(np.asarray(g) for g in r["grid"]), np.asarray(r["conc"]), np.asarray(r["flx"]), r["tower_name"], r["tower_xy"], r["timestamp"], r["params"])


def run(ctx):
    core.warm_numba()
    dmax = 2 if ctx.tier == "quick" else 3
    cs = [{"devs": [list(x) for x in c]} for c in combos(dmax)]
    ctx.rule = (
        "every configuration within <= %d axis deviations of the default over 19 axes (%d configurations), x every tower x every time index; non-trivial = (configuration, tower, step) triples where both sides returned and were compared; "
        "evaluations counts executions of either side" % (dmax, len(cs))
    )
    res = ctx.run_cases(case_config, cs, sub="config")
    from vf import callerenv
    callerenv.run(ctx, case_config, [{"devs": []}, {"devs": [["met", "__z0_only", 0.05]]}, {"devs": [["met", "z0", 0.1]]}])
    ctx.cov["deviation_bound_completed"] = dmax
    ctx.cov["configurations"] = len(cs)
    ctx.cov["tower_step_runs_compared"] = int(sum(r.get("obs", {}).get("tower_step_runs_compared", 0) for r in res))
    ctx.cov["configurations_rejected_at_parse"] = int(sum(1 for r in res if "rejected" in (r.get("obs") or {})))
    if ctx.cov["configurations_rejected_at_parse"] > len(cs) // 10:
        raise core.HarnessError("more than 10%% of the configuration lattice is rejected at parse time (%d of %d): the lattice no longer matches the schema" % (ctx.cov["configurations_rejected_at_parse"], len(cs)))
    from vf import histories

    histories.run(ctx, __name__, 2 if ctx.tier == "quick" else 3)
    md = 4 if ctx.tier == "quick" else 5
    mh = [{"ops": list(h)} for d in range(2, md + 1) for h in itertools.product(MUT_OPS, repeat=d) if h[-1].startswith("run") and sum(o.startswith("run") for o in h) >= 2]
    ctx.run_cases(case_mutation_history, mh, sub="config-mutation-sessions")
    ctx.run_cases(case_full_output_sweep, [{"zm": z_} for z_ in (2.0, 3.0, 5.0, 7.5, 10.0, 2.5, 12.0)], sub="full_output over heights, layer counts and forcings", chunksize=1)
    core.run_forked(ctx, case_cache_race, [{"step": 1}], sub="two workers sharing the cache directory (all interleavings, <= 2 preemptions)", nproc=4, timeout=1800)
    bc = [{"order": list(o), "break_at": b, "how": h} for o in ((0, 1, 2), (2, 1, 0), (1, 1, 2), (0, 2, 2)) for b in (0, 1, 2) for h in ("gone", "file")]
    ctx.run_cases(case_broken_cache, bc, sub="cache directory breaks in the middle of a series")
    bigcases.run(ctx, "C13")
