"""C02 - footprint weights reproduce the flux and concentration seen at the tower.

For each configuration (profile set x grid x halo x mode count x precision) the
COMPLETE reciprocity matrix is computed on the real solver:
    F[m][s] = footprint for tower cell m, evaluated at source cell s
    D[s][m] = forward (dispersion) response to a unit impulse at s, read at m
and F[m][s] == D[s][m] is demanded for all (nx*ny)^2 pairs, for flux and for
concentration, at two output levels.  Because the solver is linear in the source
(C04) this fixes sum(q0*footprint) == forward flux for EVERY source field; three
seeded non-basis fields (random, sparse, smooth) ride along as a cross-check."""

import itertools
import os

import numpy as np

from vf import bigcases
from vf import core
from vf import solverlib as sl

PROPERTY = "C02"
LEVEL = "exploration"
MANIFEST = {
    "technique": "bounded-exhaustive enumeration: full impulse-basis reciprocity matrix per configuration over the complete halo x modes x profile x grid x precision lattice, differential oracle (forward run)",
    "text": "All (nx*ny)^2 (tower cell, source cell) pairs are compared between footprint mode and the forward run for every configuration of a finite lattice that contains commensurate, half-commensurate and incommensurate halos, the default halo, three mode counts, four profile sets, non-square grids with dx != dy of even, odd and mixed parity (odd sizes with clamped mode counts) and both precisions. By linearity the impulse basis decides the statement for all surface-flux fields.",
    "note": "Tolerance 1e-9 of the field maximum in double and 2e-5 in single precision (shooting amplifies rounding; alphabets keep sum(lambda dz) small). Real-valued parameters are covered on the listed lattice only. Profiles come from the harness' own MOST formulas.",
}


def configs(tier):
    if tier == "quick":
        profs, grids, precs = ("const", "most_aniso"), sl.GRIDS[:1], ("double",)
        modes = ("full", [4, 4], [64, 64])
        for p, g, h, m, pr in itertools.product(profs, grids, sl.HALOS, modes, precs):
            yield {"prof": p, "grid": g[0], "dom": g[1], "halo": h, "modes": m, "prec": pr}
        # analytic mode (constant profiles) with a non-zero background: the forward run's concentration ABOVE BACKGROUND is compared
        for h, m in itertools.product((0.0, 13.0, None), ("full", [4, 4])):
            yield {"prof": "const", "grid": sl.GRIDS[0][0], "dom": sl.GRIDS[0][1], "halo": h, "modes": m, "prec": "double", "analytic": True, "bg": 3.5}
        for h in (13.0, None):
            yield {"prof": "most_aniso", "grid": sl.GRIDS[0][0], "dom": sl.GRIDS[0][1], "halo": h, "modes": "full", "prec": "double", "bg": -2.25}
        # one single-precision and one other-grid representative per halo
        for h in sl.HALOS:
            yield {"prof": "mostm_s", "grid": sl.GRIDS[1][0], "dom": sl.GRIDS[1][1], "halo": h, "modes": "full", "prec": "single"}
        # a grid whose spacings (2.5 m, 7.5 m) make the padded offset px*dx fractional while tower coordinates are whole metres
        for k, h in enumerate((8.9, 7.5, None, 0.0)):
            yield {"prof": sl.PROFILE_SETS[k % 4], "grid": [8, 6], "dom": [20.0, 45.0], "halo": h, "modes": "full", "prec": "double"}
        # wind exactly along a grid axis (one component identically zero; MOSTM: Ky identically zero)
        for p_, h in itertools.product(sl.AXIS_SETS, (0.0, 13.0, None)):
            yield {"prof": p_, "grid": sl.GRIDS[0][0], "dom": sl.GRIDS[0][1], "halo": h, "modes": "full", "prec": "double"}
        # rounding knife-edge: 3x3 cells over 80 m x 80 m, a halo of exactly three cells (80 m, also the default): int(80/dx) = 3 but
        # 80 // dx = 2.  The oracle is the library's own forward run, so only internal consistency is judged.
        for h in (80.0, None, 70.0):
            yield {"prof": "most_aniso", "grid": [3, 3], "dom": [80.0, 80.0], "halo": h, "modes": [64, 64], "prec": "double"}
        # degenerate shapes: a single row / a single column of cells
        for k, (g, h) in enumerate(itertools.product(sl.DEGENERATE_GRIDS, (0.0, 13.0, None))):
            yield {"prof": sl.PROFILE_SETS[(k + 1) % 4], "grid": g[0], "dom": g[1], "halo": h, "modes": [64, 64], "prec": "double"}
        # odd grid sizes (odd padded sizes, clamped mode counts)
        for k, (g, h) in enumerate(itertools.product(sl.ODD_GRIDS, (0.0, None, 13.0, 20.0))):
            yield {"prof": sl.PROFILE_SETS[k % 4], "grid": g[0], "dom": g[1], "halo": h, "modes": [64, 64], "prec": "double"}
    else:
        modes = ("full", [4, 4], [64, 64], [6, 4])
        for p, g, h, m, pr in itertools.product(sl.PROFILE_SETS, sl.GRIDS, sl.HALOS + (52.0, 100.0), modes, ("double", "single")):
            yield {"prof": p, "grid": g[0], "dom": g[1], "halo": h, "modes": m, "prec": pr}
        for p, g, h, pr in itertools.product(sl.PROFILE_SETS, sl.ODD_GRIDS, sl.HALOS + (52.0,), ("double", "single")):
            yield {"prof": p, "grid": g[0], "dom": g[1], "halo": h, "modes": [64, 64], "prec": pr}


def case_reciprocity(case):
    S = sl.solver()
    seed = int(os.environ.get("VERIF_SEED", "0") or 0)
    nx, ny = case["grid"]
    dom = tuple(case["dom"])
    dx, dy = dom[0] / nx, dom[1] / ny
    z, prof = sl.build_profiles(case["prof"], 4)
    levels = [2, 4]
    halo = case["halo"]
    modes = sl.resolve_modes(case["modes"], nx, ny, dom, halo)
    prec = case["prec"]
    sl.pollute(*sl.padded_size(nx, ny, dom, halo)[:2], dx, dy)
    tol = 1e-9 if prec == "double" else 2e-5
    kw = dict(modes=modes, halo=halo, precision=prec, analytic=bool(case.get("analytic")))
    bg = float(case.get("bg", 0.0))
    fkw = dict(kw, srf_bg_conc=bg) if bg else kw  # forward runs carry the background; it is subtracted again below
    ncell = nx * ny
    F = np.zeros((2, 2, ncell, ncell))  # [conc/flx, level, m, s]
    D = np.zeros((2, 2, ncell, ncell))  # [conc/flx, level, s, m]
    q0 = np.zeros((ny, nx))
    nextra = 0
    buf = np.zeros((ny, nx))  # ONE preallocated source map, refilled in place for every forward run (a legitimate usage pattern)
    for m, (j, i) in enumerate(itertools.product(range(ny), range(nx))):
        mp = (i * dx, j * dy)
        if m % 2 == 0 and float(mp[0]).is_integer() and float(mp[1]).is_integer():
            mp = (int(mp[0]), int(mp[1]))  # whole-metre tower coordinates written as integers
        # the two output heights are requested together or one by one (scalar level), alternating per tower cell and per
        # side: a footprint for height z[l] must equal the forward response at THAT height however either was asked for
        if m % 3 == 2:
            for l, lev in enumerate(levels):
                _, c, f = S(q0, z, prof, dom, lev, meas_pt=mp, footprint=True, **kw)
                F[0, l, m, :] = np.asarray(c).reshape(ncell)
                F[1, l, m, :] = np.asarray(f).reshape(ncell)
                nextra += 1
        else:
            _, c, f = S(q0, z, prof, dom, levels, meas_pt=mp, footprint=True, **kw)
            F[0, :, m, :] = np.asarray(c).reshape(2, ncell)
            F[1, :, m, :] = np.asarray(f).reshape(2, ncell)
        buf[...] = 0.0
        buf[j, i] = 1.0
        if m % 3 == 1:
            for l, lev in enumerate(levels):
                _, c, f = S(buf, z, prof, dom, lev, **fkw)
                D[0, l, m, :] = np.asarray(c).reshape(ncell) - bg
                D[1, l, m, :] = np.asarray(f).reshape(ncell)
                nextra += 1
        else:
            _, c, f = S(buf, z, prof, dom, levels, **fkw)
            D[0, :, m, :] = np.asarray(c).reshape(2, ncell) - bg
            D[1, :, m, :] = np.asarray(f).reshape(2, ncell)
    v = []
    worst = 0.0
    for w, name in ((1, "flux"), (0, "concentration")):
        for l in range(2):
            scale = max(np.abs(D[w, l]).max(), 1e-300, (1e-6 * abs(bg)) if w == 0 else 0.0)
            err = np.abs(F[w, l] - D[w, l].T) / scale
            e = float(err.max()) if np.all(np.isfinite(err)) else float("inf")
            worst = max(worst, e)
            if not e <= tol:
                m, s = np.unravel_index(np.nanargmax(err), err.shape)
                v.append(
                    {
                        "sub": "reciprocity",
                        "sig": "reciprocity/%s" % name,
                        "msg": "%s level %d: footprint[tower cell %d][source cell %d]=%.6g but forward run of a unit source there gives %.6g at the tower (rel. err %.2e of field max, tol %.0e); config %s"
                        % (name, levels[l], m, s, F[w, l, m, s], D[w, l, s, m], e, tol, core.canon(case)),
                    }
                )
    # non-basis fields through the library's own convolution helper
    from bldfm.utils import point_measurement

    rng = core.case_rng(seed, case)
    nexec = 2 * ncell + nextra
    allf = dict(sl.fields(rng, ny, nx))
    allf.update(sl.scaled_fields(rng, ny, nx))  # the same statement in other units (tolerances are relative to the forward field)
    for fname, q in allf.items():
        _, cd, fd = S(q, z, prof, dom, levels, **fkw)
        cd, fd = np.asarray(cd).reshape(2, ny, nx) - bg, np.asarray(fd).reshape(2, ny, nx)
        nexec += 1
        qF = np.asfortranarray(q)
        qS = np.repeat(np.repeat(q, 2, axis=0), 2, axis=1)[::2, ::2]
        for m, (j, i) in enumerate(itertools.product(range(ny), range(nx))):
            for l in range(2):
                for w, name, d in ((1, "flux", fd), (0, "concentration", cd)):
                    # the flux map in the caller's memory layout: C order, Fortran order (a transposed raster), a strided view
                    qa = (q, qF, qS)[m % 3]
                    got = point_measurement(qa, F[w, l, m].reshape(ny, nx))
                    want = d[l, j, i]
                    # (with a background the forward concentration is known only to rounding of the background itself)
                    scale = max(np.abs(d[l]).max(), 1e-300, (1e-6 * abs(bg)) if name == "concentration" else 0.0)
                    e = abs(got - want) / scale
                    worst = max(worst, e)
                    if not e <= tol * 5:
                        v.append(
                            {
                                "sub": "convolution",
                                "sig": "convolution/%s" % name,
                                "msg": "%s field, %s, tower cell (%d,%d) level %d: sum(q0*footprint)=%.6g, forward run=%.6g (rel %.2e); config %s"
                                % (fname, name, j, i, levels[l], got, want, e, core.canon(case)),
                            }
                        )
                        break
                else:
                    continue
                break
            else:
                continue
            break
    _, _, px, py = sl.padded_size(nx, ny, dom, halo)
    h_eff = max(dom) if halo is None else halo
    incommensurate = (abs(px * dx - h_eff) > 1e-9) or (abs(py * dy - h_eff) > 1e-9)
    return {"v": v, "nt": True, "n": nexec, "obs": {"worst_rel_err": worst, "pad_cells": [px, py], "incommensurate_halo": bool(incommensurate), "pairs": 4 * ncell * ncell}}


def run(ctx):
    os.environ["VERIF_SEED"] = str(ctx.seed)
    core.warm_numba()
    from vf import callerenv, callforms
    callerenv.run(ctx, callforms.case_requests_plain, [{"requests": list(callforms.requests())}])
    ctx.rule = (
        "complete product of the configuration lattice (quick: 2 profile sets x 7 halos x 3 mode counts, double, plus 7 single-precision/other-grid "
        "configurations; thorough: 4 profile sets x 2 grids x 9 halos x 4 mode counts x 2 precisions); per configuration all (nx*ny)^2 reciprocity pairs "
        "x 2 levels x {flux, concentration} and 3 seeded non-basis fields; every configuration is non-trivial (distinct lattice point, O(1) fields); "
        "evaluations counts solver executions"
    )
    ctx.assumptions += [
        "linearity in the source (decided by C04) is what lets the impulse basis speak for all fields",
        "halo lattice avoids values where halo/dx is an integer only up to rounding",
    ]
    res = ctx.run_cases(case_reciprocity, configs(ctx.tier), sub="reciprocity", chunksize=1)
    ctx.cov["reciprocity_pairs_compared"] = int(sum(r.get("obs", {}).get("pairs", 0) for r in res))
    ctx.cov["configs_with_incommensurate_halo"] = int(sum(1 for r in res if r.get("obs", {}).get("incommensurate_halo")))
    ctx.cov["worst_rel_err"] = max([r.get("obs", {}).get("worst_rel_err", 0) for r in res] + [0])
    bigcases.run(ctx, "C02")
