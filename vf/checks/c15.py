"""C15 - the result cache is transparent, complete, effective and crash-safe.

Model: vf/oracles/cachemodel.py - a dict keyed by the complete request; the expected answer to
any request is the uncached solve of that request.
Alphabet: base request R0 and one variant per solver parameter (source values, source shape, z,
each of the five profiles, domain x / y, levels: other subset / other order / scalar, modes,
meas_pt x / y, background, analytic, halo: other / None / the explicit value None resolves to,
precision, and a dispersion-mode request that must bypass the cache).
Histories: ALL ordered pairs (quick) / all ordered triples (thorough) of requests on one
persistent directory, each in three sharing patterns: one cache object, a new object per request,
and the first request issued by a separate (forked) process.
Observed: returned grid/conc/flx (values, shapes, dtypes) == uncached solve; a request identical
to an earlier one is served WITHOUT solving (counter on the solver's FFT); directory contents.
Crash points: the write log of a real put (logged through an io.open proxy, incl. the header
rewrites zipfile performs by seeking back) -> every byte prefix of the final file, every
write-log prefix, every subset of 512-byte blocks zero-filled; each image is put in place of the
entry and R0 is requested through a NEW cache object: must return the model's answer, must not raise,
and must leave a healthy entry behind (next request hits)."""

import io
import itertools
import os
import shutil

import numpy as np

from vf import core
from vf import solverlib as sl
from vf.oracles.cachemodel import CacheModel

PROPERTY = "C15"
LEVEL = "model_checking"
MANIFEST = {
    "technique": "exhaustive enumeration of request histories (all ordered pairs / triples over a one-variant-per-parameter alphabet, three process-sharing patterns) against a dict model, plus exhaustive crash-image enumeration (all byte prefixes, all write-log prefixes, all dropped-block subsets of a real entry) replayed on the real get/solve path",
    "text": "Every ordered sequence of requests within the bound is executed on the real solver with a real persistent cache directory and compared with a dict keyed by the complete request; the alphabet contains one variant for every parameter of the solver signature, so any parameter missing from the key yields a stale answer in some pair. Effectiveness is decided by counting solver FFTs on repeats. Crash safety is decided for every truncation point, every prefix of the logged write sequence and every subset of lost 512-byte blocks of a real entry.",
    "note": "Crash model: images of the final path only (prefixes, write-log prefixes, zero-filled lost blocks of one representative entry); file-system metadata reordering is not modelled. Histories are bounded by depth 2 (quick) / 3 (thorough). The model's notion of 'repeat' is an identical complete request; for non-identical requests only correctness is demanded, not a miss.",
}


def base_request():
    z, prof = sl.build_profiles("most_aniso", 4)
    rng = np.random.default_rng(7)
    return dict(srf_flx=rng.random((6, 8)), z=z, profiles=prof, domain=(80.0, 90.0), levels=[2, 4], modes=(8, 6), meas_pt=(20.0, 30.0),
                srf_bg_conc=0.0, footprint=True, analytic=False, halo=20.0, precision="double")


def variants():
    b = base_request()
    u, v, Kx, Ky, Kz = b["profiles"]
    V = {"R0": {}}
    V["srcvals"] = dict(srf_flx=b["srf_flx"] * 2.0)
    V["srcshape"] = dict(srf_flx=np.ones((12, 16)))
    V["z"] = dict(z=b["z"] * 1.1)
    V["u"] = dict(profiles=(u * 1.1, v, Kx, Ky, Kz))
    V["v"] = dict(profiles=(u, v * 1.1, Kx, Ky, Kz))
    V["Kx"] = dict(profiles=(u, v, Kx * 1.2, Ky, Kz))
    V["Ky"] = dict(profiles=(u, v, Kx, Ky * 1.2, Kz))
    V["Kz"] = dict(profiles=(u, v, Kx, Ky, Kz * 1.2))
    V["domx"] = dict(domain=(160.0, 90.0))
    V["domy"] = dict(domain=(80.0, 120.0))
    V["levels-subset"] = dict(levels=[2, 3])
    V["levels-order"] = dict(levels=[4, 2])
    V["levels-scalar"] = dict(levels=4)
    V["levels-array"] = dict(levels=np.array([1, 4]))
    V["modes"] = dict(modes=(4, 4))
    V["measx"] = dict(meas_pt=(30.0, 30.0))
    V["measy"] = dict(meas_pt=(20.0, 45.0))
    V["meas-near"] = dict(meas_pt=(20.3, 30.2))  # 30 cm from the base request's tower: equal when printed with few digits
    V["bg"] = dict(srf_bg_conc=3.0)
    # backgrounds in trace-gas units: they differ from each other and from the base request only beyond the sixth decimal
    V["bg-trace-a"] = dict(srf_bg_conc=4.0e-7)
    V["bg-trace-b"] = dict(srf_bg_conc=4.2e-7)
    # a halo a hair below two cells: int(halo/dx) = 1 where the base request's 20 m gives 2
    V["halo-hair-below"] = dict(halo=19.9999999)
    # the same kind of request with profiles that are COLUMNS of one table (np.loadtxt style: strided, non-contiguous views)
    tab = np.stack([u * 1.05, v, Kx, Ky, Kz], axis=1)
    V["profiles-table-columns"] = dict(profiles=tuple(tab[:, k_] for k_ in range(5)))
    V["source-strided-view"] = dict(srf_flx=np.repeat(np.repeat(b["srf_flx"] * 0.5, 2, axis=0), 2, axis=1)[::2, ::2])
    # value/identity coincidences among the profile components: ONE array object handed over for two of them (a caller
    # writing profiles = (u, v, Kh, Kh, Kz)); the two requests differ only in WHICH neighbours share the object
    Kh = Kx * 1.3
    V["profiles-one-object-KxKy"] = dict(profiles=(u, v, Kh, Kh, Kz))
    V["profiles-one-object-KyKz"] = dict(profiles=(u, v, Kh, Kz, Kz))
    V["analytic"] = dict(analytic=True)
    V["halo30"] = dict(halo=30.0)
    V["haloNone"] = dict(halo=None)
    V["halo90"] = dict(halo=90.0)
    V["single"] = dict(precision="single")
    V["dispersion"] = dict(footprint=False)
    # a 3x3 grid over 80 m x 80 m: the cell size 26.66.. is not representable, and a halo of 80 m is EXACTLY three cells -
    # the pad width int(halo/dx) = 3 sits on a rounding knife-edge (80 // dx is 2).  The oracle is the uncached solve of the
    # same request, so nothing here depends on which side of the edge the library falls, only on the cache agreeing with it.
    knife = dict(srf_flx=np.ones((3, 3)), domain=(80.0, 80.0), modes=(64, 64), meas_pt=(26.0, 53.0))
    # a single row of cells with several output levels (the solver squeezes the singleton axis away)
    V["single-row"] = dict(srf_flx=np.ones((1, 8)), domain=(80.0, 15.0), modes=(64, 64), meas_pt=(30.0, 0.0), levels=[4, 1, 2])
    V["single-row-1level"] = dict(srf_flx=np.ones((1, 8)), domain=(80.0, 15.0), modes=(64, 64), meas_pt=(30.0, 0.0), levels=[2])
    V["knife-halo80"] = dict(knife, halo=80.0)
    V["knife-haloNone"] = dict(knife, halo=None)
    V["knife-halo70"] = dict(knife, halo=70.0)
    return V


NAMES = list(variants())


def request(name):
    kw = base_request()
    kw.update(variants()[name])
    return kw


def _same(a, b):
    """exact equality of (grid, conc, flx) incl. shapes and dtypes; returns None or description"""
    ga, ca, fa = a
    gb, cb, fb = b
    for nm, x, y in [("grid[%d]" % i, ga[i], gb[i]) for i in range(3)] + [("conc", ca, cb), ("flx", fa, fb)]:
        if isinstance(x, np.ndarray) and isinstance(y, np.ndarray) and x.shape == y.shape:
            # the caller may USE what it gets (X -= tower_x, conc[mask] = nan): same writability, own elements
            if x.flags.writeable != y.flags.writeable:
                return "%s is %s, the uncached solve returns a %s array" % (nm, "writable" if x.flags.writeable else "read-only", "writable" if y.flags.writeable else "read-only")
            if x.size > 1 and any(st == 0 and n_ > 1 for st, n_ in zip(x.strides, x.shape)) and not any(st == 0 and n_ > 1 for st, n_ in zip(y.strides, y.shape)):
                return "%s has zero strides %s (its elements share memory), the uncached solve returns an ordinary array" % (nm, x.strides)
        x, y = np.asarray(x), np.asarray(y)
        if x.shape != y.shape:
            return "%s shape %s, uncached solve gives %s" % (nm, x.shape, y.shape)
        if x.dtype != y.dtype:
            return "%s dtype %s, uncached solve gives %s" % (nm, x.dtype, y.dtype)
        if not np.array_equal(x, y):
            sc = max(np.abs(y).max(), 1e-300)
            return "%s differs from the uncached solve by %.3e of its maximum" % (nm, np.abs(x - y).max() / sc)
    return None


class _Counter:
    def __init__(self):
        import bldfm.solver as bs

        self.bs = bs
        self.n = 0
        self.orig = bs.fft2

    def __enter__(self):
        def counted(*a, **k):
            self.n += 1
            return self.orig(*a, **k)

        self.bs.fft2 = counted
        return self

    def __exit__(self, *a):
        self.bs.fft2 = self.orig


_EXPECT = {}


def expected(name):
    if name not in _EXPECT:
        _EXPECT[name] = sl.solver()(**request(name))
    return _EXPECT[name]


def case_history(case):
    """case: {"hist": [names], "pattern": "one-object" | "new-object" | "two-process"}"""
    from bldfm.cache import GreensFunctionCache

    S = sl.solver()
    hist, pattern = case["hist"], case["pattern"]
    cdir = os.path.join(os.getcwd(), "cache_%s" % core.case_hash(case))
    shutil.rmtree(cdir, ignore_errors=True)
    v = []
    model = CacheModel()
    cache = GreensFunctionCache(cdir)
    served = []
    try:
        files_of = {}
        for k, name in enumerate(hist):
            if name.startswith("!"):
                # an interrupted run / a full disk damaged the entry stored for this request: "!z:NAME" leaves zero bytes,
                # "!h:NAME" the first half
                how, tgt = name[1], name[3:]
                model.damage(tgt)
                for fn_ in files_of.get(tgt, []):
                    pth = os.path.join(cdir, fn_)
                    if os.path.exists(pth):
                        data_ = open(pth, "rb").read()
                        with open(pth, "wb") as fh_:
                            fh_.write(b"" if how == "z" else data_[: len(data_) // 2])
                continue
            before_files = set(os.listdir(cdir)) if os.path.isdir(cdir) else set()
            kw = request(name)
            # the model key is the request's name: every variant differs from R0 in exactly one argument
            verdict = model.request(name, footprint=kw["footprint"])
            if pattern == "new-object" or (pattern in ("two-process", "fresh-interpreter") and k == 1):
                cache = GreensFunctionCache(cdir)
            if pattern == "fresh-interpreter" and k == 0:
                # an EARLIER session: a separately started interpreter (own hash randomisation, own pid, nothing inherited)
                import subprocess
                import sys as _sys

                code = ("import sys, logging; logging.disable(logging.CRITICAL); sys.path.insert(0, %r); sys.path.insert(1, %r)\n"
                        "from vf.checks import c15\nfrom vf import solverlib as sl\nfrom bldfm.cache import GreensFunctionCache\n"
                        "sl.solver()(cache=GreensFunctionCache(%r), **c15.request(%r))\nimport os; os._exit(0)\n") % (core.SRC, core.VERIF, cdir, name)
                env = dict(os.environ, PYTHONHASHSEED="random")
                r_ = subprocess.run([_sys.executable, "-c", code], capture_output=True, text=True, env=env, timeout=600)
                if r_.returncode != 0:
                    last = [l for l in r_.stderr.strip().splitlines() if l and not l.startswith((" ", "Traceback", "Exception ignored", "RuntimeError: can't create"))]
                    v.append({"sub": "fatal", "sig": "fatal/earlier-session", "msg": "request %s with a cache attached failed in a separately started interpreter: %s" % (name, (last[-1] if last else r_.stderr[-200:])[:200])})
                continue
            if pattern == "two-process" and k == 0:
                pid = os.fork()
                if pid == 0:
                    try:
                        S(cache=GreensFunctionCache(cdir), **kw)
                    finally:
                        os._exit(0)
                os.waitpid(pid, 0)
                continue
            with _Counter() as cnt:
                try:
                    got = S(cache=cache, **kw)
                except Exception as e:
                    v.append({"sub": "fatal", "sig": "fatal/%s" % type(e).__name__, "msg": "request %s after %s raised %s: %s (pattern %s)" % (name, hist[:k], type(e).__name__, e, pattern)})
                    continue
            served.append((name, verdict, cnt.n))
            newf = (set(os.listdir(cdir)) if os.path.isdir(cdir) else set()) - before_files
            if newf and name not in files_of:
                files_of[name] = sorted(newf)
            d = _same(got, expected(name))
            if case.get("caller_overwrites", True):
                # the caller owns what it was handed: it normalises / reuses the arrays in place
                for arr in list(got[0]) + [got[1], got[2]]:
                    arr = np.asarray(arr)
                    if arr.flags.writeable and arr.size:
                        arr[...] = -777.0
            if d:
                v.append({"sub": "stale", "sig": "stale/%s-after-%s" % (name, "+".join(hist[:k]) if k else "nothing"),
                          "msg": "request %s after %s (pattern %s): %s" % (name, hist[:k], pattern, d)})
            if verdict == "repeat" and cnt.n > 0:
                v.append({"sub": "ineffective", "sig": "ineffective/%s" % name,
                          "msg": "request %s repeated after %s (pattern %s) was solved again (%d solver FFTs) instead of being served from the cache" % (name, hist[:k], pattern, cnt.n)})
            if verdict == "uncacheable" and os.path.isdir(cdir) and False:
                pass
    finally:
        files = sorted(os.listdir(cdir)) if os.path.isdir(cdir) else []
        shutil.rmtree(cdir, ignore_errors=True)
    repeats = sum(1 for _, vd, _ in served if vd == "repeat")
    return {"v": v[:4], "nt": len(set(hist)) > 1 or repeats > 0, "n": len(hist), "obs": {"served": served, "files": len(files)}}


# --------------------------------------------------------------------------- crash images
class _Proxy:
    def __init__(self, f, log):
        self._f, self._log = f, log

    def write(self, b):
        self._log.append(("write", self._f.tell(), bytes(b)))
        return self._f.write(b)

    def __getattr__(self, k):
        return getattr(self._f, k)

    def __enter__(self):
        return self

    def __exit__(self, *a):
        return self._f.__exit__(*a)


def record_put():
    """performs a real solve+put of R0 with io.open proxied; returns (path, final bytes, write log)"""
    from bldfm.cache import GreensFunctionCache

    logs = {}
    real_open = io.open
    real_replace, real_rename = os.replace, os.rename
    cdir = os.path.join(os.getcwd(), "crash_cache")

    def popen(file, mode="r", *a, **k):
        f = real_open(file, mode, *a, **k)
        # every file written inside the cache directory, whatever it is called (an entry may be written under a scratch name
        # and moved into place)
        if ("w" in mode or "+" in mode or "a" in mode) and isinstance(file, (str, os.PathLike)) and os.path.realpath(os.fspath(file)).startswith(os.path.realpath(cdir) + os.sep):
            return _Proxy(f, logs.setdefault(os.path.realpath(os.fspath(file)), []))
        return f

    def pmove(real):
        def mv(src, dst, *a, **k):
            r = real(src, dst, *a, **k)
            sp, dp = os.path.realpath(os.fspath(src)), os.path.realpath(os.fspath(dst))
            if sp in logs:
                logs[dp] = logs.pop(sp)
            return r
        return mv

    shutil.rmtree(cdir, ignore_errors=True)
    import builtins

    real_builtin_open = builtins.open
    io.open = popen
    builtins.open = popen
    os.replace, os.rename = pmove(real_replace), pmove(real_rename)
    try:
        sl.solver()(cache=GreensFunctionCache(cdir), **request("R0"))
    finally:
        io.open = real_open
        builtins.open = real_builtin_open
        os.replace, os.rename = real_replace, real_rename
    files = [f for f in os.listdir(cdir) if f.endswith(".npz")]
    if len(files) != 1:
        raise core.HarnessError("expected exactly one cache entry after one put, found %r" % files)
    path = os.path.join(cdir, files[0])
    data = open(path, "rb").read()
    log = logs.get(os.path.realpath(path), [])
    if not log:
        raise core.HarnessError("the io.open seam saw no writes - the cache no longer writes its entry through io.open/zipfile")
    # the log must reproduce the file (otherwise prefixes of it are not faithful crash images)
    img = bytearray()
    for _, off, b in log:
        if off > len(img):
            img.extend(b"\0" * (off - len(img)))
        img[off:off + len(b)] = b
    if bytes(img) != data:
        raise core.HarnessError("replaying the write log does not reproduce the entry (%d vs %d bytes)" % (len(img), len(data)))
    return cdir, path, data, log


def crash_images(data, log, tier):
    imgs = []
    for n in range(len(data) + 1):
        imgs.append(("byte-prefix", n, None))
    for k in range(len(log) + 1):
        imgs.append(("writelog-prefix", k, None))
    nblk = (len(data) + 511) // 512
    for mask in range(1, 2 ** nblk):
        imgs.append(("dropped-blocks", mask, nblk))
    return imgs


def two_writer_images(log, max_switches):
    """Two processes store the SAME entry concurrently (np.savez opens the final path with truncation and writes in
    place).  Each writer's program is [open+truncate, write_1, ..., write_n]; a schedule with <= max_switches context
    switches is A[0:i] B[0:j] (A[i:k]) followed by a crash of both.  Returns the distinct resulting file images as
    (i, j, k) triples - the image itself is rebuilt from the triple."""
    n = len(log) + 1  # op 0 = open/truncate
    seen = {}
    for i in range(0, n + 1):
        for j in range(0, n + 1):
            ks = range(i, n + 1) if max_switches >= 2 else (i,)
            for k in ks:
                img = bytes(_simulate(log, [("A", 0, i), ("B", 0, j), ("A", i, k)]))
                if img not in seen:
                    seen[img] = (i, j, k)
    return sorted(seen.values())


def _simulate(log, segments):
    img = bytearray()
    for _, lo, hi in segments:
        for op in range(lo, hi):
            if op == 0:
                img = bytearray()  # open(path, "wb") truncates
            else:
                _, off, b = log[op - 1]
                if off > len(img):
                    img.extend(b"\0" * (off - len(img)))
                img[off:off + len(b)] = b
    return img


def build_image(kind, arg, data, log):
    if kind == "two-writers":
        i, j, k = arg
        return bytes(_simulate(log, [("A", 0, i), ("B", 0, j), ("A", i, k)]))
    if kind == "byte-prefix":
        return data[:arg]
    if kind == "writelog-prefix":
        img = bytearray()
        for _, off, b in log[:arg]:
            if off > len(img):
                img.extend(b"\0" * (off - len(img)))
            img[off:off + len(b)] = b
        return bytes(img)
    img = bytearray(data)
    for blk in range((len(data) + 511) // 512):
        if arg >> blk & 1:
            img[blk * 512:(blk + 1) * 512] = b"\0" * len(img[blk * 512:(blk + 1) * 512])
    return bytes(img)


def case_crash(case):
    """case: {"kind":..., "args":[...]} - a chunk of crash images of the same kind"""
    from bldfm.cache import GreensFunctionCache

    S = sl.solver()
    cdir, path, data, log = record_put()
    exp = expected("R0")
    v = []
    differ = served_hits = 0
    kw = request("R0")
    for arg in case["args"]:
        img = build_image(case["kind"], arg, data, log)
        with open(path, "wb") as f:
            f.write(img)
        intact = img == data
        differ += 0 if intact else 1
        lab = "%s %s (%d of %d bytes%s)" % (case["kind"], arg, len(img), len(data), ", identical to the intact entry" if intact else "")
        with _Counter() as cnt:
            try:
                got = S(cache=GreensFunctionCache(cdir), **kw)
            except Exception as e:
                v.append({"sub": "crash-fatal", "sig": "crash-fatal/%s/%s" % (case["kind"], type(e).__name__),
                          "msg": "entry left as %s: the next request raised %s: %s" % (lab, type(e).__name__, str(e)[:120])})
                continue
        d = _same(got, exp)
        if d:
            v.append({"sub": "crash-returned", "sig": "crash-returned/%s" % case["kind"], "msg": "entry left as %s: the next request returned a wrong result: %s" % (lab, d)})
        if intact and cnt.n > 0:
            v.append({"sub": "ineffective", "sig": "ineffective/intact-image", "msg": "intact entry (%s) was not served from the cache" % lab})
        if cnt.n == 0:
            served_hits += 1
        # healed: the entry in place now must serve the next identical request correctly and without solving
        with _Counter() as cnt2:
            try:
                got2 = S(cache=GreensFunctionCache(cdir), **kw)
                d2 = _same(got2, exp)
                if d2 or cnt2.n > 0:
                    v.append({"sub": "not-healed", "sig": "not-healed/%s" % case["kind"], "msg": "after a request on %s the following identical request %s" % (lab, d2 or "was solved again (entry not rewritten)")})
            except Exception as e:
                v.append({"sub": "crash-fatal", "sig": "crash-fatal-second/%s/%s" % (case["kind"], type(e).__name__), "msg": "second request after %s raised %s" % (lab, type(e).__name__)})
    shutil.rmtree(cdir, ignore_errors=True)
    return {"v": v[:4], "nt": differ, "key": "%s:%s" % (case["kind"], case["args"][0]), "n": 2 * len(case["args"]),
            "obs": {"images": len(case["args"]), "images_differing_from_intact": differ, "served_without_solving": served_hits, "entry_bytes": len(data), "write_ops": len(log)}}


def case_concurrent_writers(case):
    """two (thorough: also three) worker processes, forked from this one the way the pool forks its workers, each solving
    one footprint request through its OWN cache object on the SAME directory - every interleaving of their file operations
    with at most `bound` preemptions (vf/procsched.py).  After each execution the directory is what a later run finds: every
    request of the pair, asked again through a fresh cache object, must be answered exactly as without a cache (served from
    an intact entry or solved again); the workers' own answers must be right too."""
    import hashlib

    from bldfm.cache import GreensFunctionCache
    from vf import procsched

    names = case["requests"]
    S = sl.solver()
    want = {n_: expected(n_) for n_ in names}

    def dig(res):
        h = hashlib.sha256()
        for a in list(res[0]) + [res[1], res[2]]:
            a = np.ascontiguousarray(a)
            h.update(str(a.shape).encode() + str(a.dtype).encode() + a.tobytes())
        return h.hexdigest()

    wd_ = {n_: dig(want[n_]) for n_ in names}

    def make_workers(wd):
        cdir = os.path.join(wd, ".bldfm_cache")
        if case.get("predamaged"):
            # an interrupted earlier run left a truncated entry for this request
            S(cache=GreensFunctionCache(cdir), **request(case["predamaged"]))
            for fn_ in os.listdir(cdir):
                pth = os.path.join(cdir, fn_)
                data_ = open(pth, "rb").read()
                with open(pth, "wb") as fh_:
                    fh_.write(data_[: len(data_) // 2])

        def mk(n_):
            def run():
                return dig(S(cache=GreensFunctionCache(cdir), **request(n_)))
            return run
        return [mk(n_) for n_ in names]

    def oracle(wd, trace, results):
        msgs = []
        cdir = os.path.join(wd, ".bldfm_cache")
        for n_, r in zip(names, results):
            if r is None or r[0] != "ok":
                msgs.append("the worker solving %s %s" % (n_, "died" if r is None else r[1]))
            elif r[1] != wd_[n_]:
                msgs.append("the worker solving %s returned something else than the uncached solve" % n_)
        for n_ in dict.fromkeys(names):
            try:
                got = S(cache=GreensFunctionCache(cdir), **request(n_))
            except Exception as e:  # noqa
                msgs.append("afterwards request %s through a fresh cache object raises %s: %s" % (n_, type(e).__name__, str(e)[:80]))
                continue
            d = _same(got, want[n_])
            if d:
                msgs.append("afterwards request %s through a fresh cache object: %s" % (n_, d))
        return msgs

    out = procsched.explore(make_workers, oracle, bound=case["bound"], max_executions=case.get("cap", 20000))
    v = []
    for sched, trace, msgs in out["violations"][:3]:
        v.append({"sub": "concurrent-writers", "sig": "concurrent-writers/%s" % ("+".join(names)),
                  "msg": "workers %s on one cache directory, schedule %s (operations %s): %s" % (names, "".join(str(k) for k in sched), [(k, o) for k, o, _ in trace if o not in ("start",)][:40], "; ".join(msgs[:3])),
                  "schedule": sched})
    if out["capped"]:
        raise core.HarnessError("interleaving exploration hit its cap of %d executions" % case.get("cap", 20000))
    return {"v": v, "nt": out["distinct_traces"] > 2, "n": out["executions"], "obs": {"executions": out["executions"], "distinct_interleavings": out["distinct_traces"], "steps_per_execution": out["max_steps"], "preemption_bound": case["bound"], "violating_schedules": len(out["violations"])}}


def run(ctx):
    core.warm_numba()
    depth = 2 if ctx.tier == "quick" else 3
    hists = []
    for d in range(1, depth + 1):
        for h in itertools.product(NAMES, repeat=d):
            if d == 3 and not ("R0" in h or len(set(h)) < 3):
                # triples of three different non-base variants add no new key collision beyond the pairs they contain
                continue
            hists.append(list(h))
    if depth < 3:
        hists += [[n, n, n] for n in NAMES]  # served, overwritten by the caller, served again
    cases = []
    for h in hists:
        pats = ["one-object"] if len(h) == 1 else (["one-object", "new-object", "two-process"] if len(h) == 2 else ["one-object", "two-process"])
        for p in pats:
            cases.append({"hist": h, "pattern": p})
    # recovery paths inside histories: entries damaged on disk between requests (a, b range over pairs of different requests):
    #   a b !a a b a b   - after the damaged entry of a was re-solved, b is still b and a is served from the cache again
    #   a !a b a b a     - the recovery of a must not land in (or take its key from) another request's entry
    dmg = []
    pairs_ = [("R0", n) for n in NAMES if n not in ("R0", "dispersion")] + [(n, "R0") for n in NAMES if n not in ("R0", "dispersion")] + [("measx", "measy"), ("levels-order", "levels-subset"), ("halo30", "haloNone")]
    for a_, b_ in pairs_:
        for how in ("z", "h"):
            dmg.append({"hist": [a_, b_, "!%s:%s" % (how, a_), a_, b_, a_, b_], "pattern": "one-object"})
            dmg.append({"hist": [b_, a_, "!%s:%s" % (how, a_), b_, a_, b_, a_], "pattern": "one-object"})
            dmg.append({"hist": [a_, "!%s:%s" % (how, a_), b_, a_, b_, a_], "pattern": "new-object" if how == "z" else "one-object"})
    # "in this or an earlier process": the first request of a pair is made by a separately started interpreter
    fresh = [{"hist": [n_, n_], "pattern": "fresh-interpreter"} for n_ in NAMES if n_ != "dispersion"][:: (3 if ctx.tier == "quick" else 1)] + [{"hist": ["R0", "measx"], "pattern": "fresh-interpreter"}]
    cases = cases + fresh
    res = ctx.run_cases(case_history, cases, sub="histories")
    from vf import callerenv
    callerenv.run(ctx, case_history, [{"hist": ["R0", "meas-near", "R0"], "pattern": "one-object"}, {"hist": ["meas-near", "bg", "R0", "meas-near"], "pattern": "new-object"}])
    res += ctx.run_cases(case_history, dmg, sub="histories with entries damaged on disk")
    cases = cases + dmg
    cw = [{"requests": list(p_), "bound": 2} for p_ in (("R0", "measx"), ("measx", "measy"), ("R0", "srcshape"), ("levels-order", "levels-subset"), ("R0", "R0"), ("single-row", "R0"))]
    cw += [{"requests": ["R0", "R0"], "bound": 2, "predamaged": "R0"}, {"requests": ["R0", "measx"], "bound": 2, "predamaged": "R0"}]
    if ctx.tier != "quick":
        cw += [{"requests": ["R0", "measx", "measy"], "bound": 2, "cap": 60000}, {"requests": ["R0", "halo30"], "bound": 3, "cap": 60000}]
    rcw = core.run_forked(ctx, case_concurrent_writers, cw, sub="concurrent writers on one cache directory (all interleavings, preemption-bounded)", nproc=8, timeout=1800)
    ctx.cov["concurrent_writer_executions"] = int(sum(r.get("obs", {}).get("executions", 0) for r in rcw))
    ctx.cov["concurrent_writer_distinct_interleavings"] = int(sum(r.get("obs", {}).get("distinct_interleavings", 0) for r in rcw))
    # directory-content states: set of stored requests
    states = set()
    for c in cases:
        for k in range(len(c["hist"]) + 1):
            states.add(frozenset(n for n in c["hist"][:k] if n != "dispersion"))
    # crash images
    probe = core.forked_map(__name__, "case_probe_put", [{"max_switches": 2}], ctx.tmp_root)[0]
    if "harness_error" in probe:
        raise core.HarnessError(probe["harness_error"])
    nbytes, nops = probe["obs"]["entry_bytes"], probe["obs"]["write_ops"]
    imgs = crash_images(b"\0" * nbytes, [None] * nops, ctx.tier)
    chunks = []
    for kind in ("byte-prefix", "writelog-prefix", "dropped-blocks"):
        args = [a for k, a, _ in imgs if k == kind]
        step = max(1, len(args) // 48)
        for i in range(0, len(args), step):
            chunks.append({"kind": kind, "args": args[i:i + step]})
    tw = [list(t) for t in probe["obs"]["two_writer_triples"]]
    step = max(1, len(tw) // 64)
    for i in range(0, len(tw), step):
        chunks.append({"kind": "two-writers", "args": tw[i:i + step]})
    rc = ctx.run_cases(case_crash, chunks, sub="crash-images", chunksize=1)
    nimg = int(sum(r.get("obs", {}).get("images", 0) for r in rc))
    ctx.cov.update({
        "states": len(states),
        "transitions": int(sum(len(c["hist"]) for c in cases)),
        "traces_validated_against_impl": len(cases) + nimg,
        "histories": len(cases),
        "history_depth": depth,
        "request_alphabet": NAMES,
        "crash_images": nimg,
        "crash_images_differing_from_intact": int(sum(r.get("obs", {}).get("images_differing_from_intact", 0) for r in rc)),
        "crash_entry_bytes": nbytes,
        "crash_write_log_ops": nops,
        "crash_blocks": (nbytes + 511) // 512,
        "two_writer_distinct_images": len(tw),
        "two_writer_context_switch_bound": 2,
    })
    ctx.rule = (
        "histories: all sequences of length <= %d over the %d-request alphabet (triples restricted to those containing R0 or a repeated request) x sharing patterns; "
        "states = distinct sets of stored requests, transitions = requests issued; crash images: every byte prefix, every write-log prefix, every non-empty subset of zero-filled 512-byte blocks of a real entry, "
        "each followed by two requests; non-trivial = histories with two different requests or a repeat, and crash images that differ from the intact entry; evaluations counts solver calls" % (depth, len(NAMES))
    )


def case_probe_put(case):
    cdir, path, data, log = record_put()
    shutil.rmtree(cdir, ignore_errors=True)
    tw = two_writer_images(log, case.get("max_switches", 1))
    return {"v": [], "obs": {"entry_bytes": len(data), "write_ops": len(log), "two_writer_triples": tw}}
