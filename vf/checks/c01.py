"""C01 - the solver converges to the exact advection-diffusion solution for varying profiles.

Alphabet: profile families as functions of z {log-law wind + linear K; power-law wind + power-law
anisotropic Kx != Ky != Kz; MOST unstable, MOST stable and MOSTM through the library's own
vertical_profiles grid versus the harness' continuous similarity functions; constant (sanity)}
x wind orientation {oblique, along x, along -y} x vertical grid {uniform, geometric | library grid}
x domain {200x150 m, 2000x1500 m} x (nx,ny) {(8,6),(6,8)} x output height {middle, top node}
x refinement ladder n, 4n, 16n, 64n x EVERY retained non-constant, non-Nyquist wavenumber.
Oracle: vf/oracles/riccati.py (impedance form of the same BVP, DOP853 rtol 1e-11).
Per ladder and per resolved mode: err(n) <= 16 * (max dz / column height) on every grid, and err(4n) <= max(err(n)/2.5, 0.05 h(4n))
for every pair whose coarser grid resolves the mode well (|T|dz^2/Kz <= 1/16; see DESIGN.md 10.3),
for concentration and flux transfer functions."""

import itertools
import os

import numpy as np

from vf import core
from vf import callforms
from vf import errorpaths
from vf import solverlib as sl
from vf.oracles import most, riccati

PROPERTY = "C01"
LEVEL = "exploration"
MANIFEST = {
    "technique": "bounded-exhaustive enumeration of profile-family x orientation x grid x domain lattice with complete per-wavenumber refinement ladders; independent Riccati/DOP853 reference solution of the BVP",
    "text": "For every point of the lattice the per-mode transfer function of the implementation (fft2(output)/fft2(impulse)) is compared with an independent high-accuracy integration of the same boundary-value problem on a four-step ladder in which the layer thickness is quartered three times; every resolved wavenumber must satisfy the property's two quantitative claims (error <= small multiple of the relative layer thickness; reduction >= 2.5 per quartering) for concentration and flux. The MOST/MOSTM families run through the library's own profile generator but are referenced against the harness' continuous similarity functions, which ties the generator to the theory as well.",
    "note": "Restricted exactly as the property says: modes resolved on the coarsest grid (|T|dz^2/Kz <= 1 in every layer) with bounded shooting growth (sum Re(lambda) dz <= 18); Nyquist and mean modes excluded; pairs whose finer error is below 1e-9 (reference accuracy) or already below 0.05 x the relative layer thickness (320 x inside the allowed bound; observed: single weakly-advected modes are pre-asymptotic at |T|dz^2/Kz ~ 1 and shrink only ~2 x there) are not asked to shrink further - i.e. the criterion is err(4n) <= max(err(n)/2.5, 0.05 h(4n)) per mode and in the maximum norm. 'Small multiple' is taken as 16 (observed <= 7.6). A finite ladder cannot prove an asymptotic statement.",
}

ORIENT = {"oblique": (0.8, 0.6), "x": (1.0, 0.0), "-y": (0.0, -1.0)}


def family(name, orient):
    cu, cv = ORIENT[orient]
    if name == "loglin":
        us, z0 = 0.4, 0.1
        sp = lambda z: us / 0.4 * np.log(z / z0) + 0.5  # noqa
        K = lambda z: 0.4 * us * z  # noqa
        return (lambda z: cu * sp(z), lambda z: cv * sp(z), K, K, K)
    if name == "power":
        sp = lambda z: 2.2 * z**0.25  # noqa
        return (lambda z: cu * sp(z), lambda z: cv * sp(z), lambda z: 0.3 * z**0.8 + 0.1, lambda z: 0.2 * z + 0.05, lambda z: 0.15 * z**0.9)
    if name == "smoothwall":
        # aerodynamically smooth surface (calm water, ice): z0 = 1e-5 m, Kz = kappa u* z is ~1e-6 m2/s in the lowest layers
        us, z0 = 0.2, 1e-5
        sp = lambda z: us / 0.4 * np.log(z / (0.5 * z0))  # noqa
        K = lambda z: 0.4 * us * z  # noqa
        return (lambda z: cu * sp(z), lambda z: cv * sp(z), K, K, K)
    if name == "veer":
        # wind DIRECTION turning with height (Ekman-like: u and v have different shapes), diffusivities as in "power"
        sp = lambda z: 2.2 * z**0.25  # noqa
        ang = lambda z: np.radians(20.0 + 35.0 * (np.asarray(z, dtype=float) - 0.5) / 19.5)  # noqa
        return (lambda z: sp(z) * np.cos(ang(z)), lambda z: sp(z) * np.sin(ang(z)), lambda z: 0.3 * z**0.8 + 0.1, lambda z: 0.2 * z + 0.05, lambda z: 0.15 * z**0.9)
    if name == "kxvar":
        # wind and Kz constant with height, only the HORIZONTAL diffusivities vary: no closed form applies
        c_ = lambda val: (lambda z: val + 0.0 * np.asarray(z, dtype=float))  # noqa
        return (c_(2.3 * cu), c_(2.3 * cv), lambda z: 0.3 * z**0.8 + 0.1, lambda z: 0.2 * z + 0.05, c_(0.9))
    if name.startswith("pair-"):
        # two of the three diffusivities COINCIDE (value for value), the third is several times larger or smaller: whatever
        # the solver concludes from one equality (isotropy, a shared ratio) must not be extended to the third
        sp = lambda z: 2.2 * z**0.25  # noqa
        Kb = lambda z: 0.15 * z**0.9 + 0.05  # noqa
        Ko = lambda z: 6.0 * (0.15 * z**0.9 + 0.05)  # noqa
        Kx, Ky, Kz = {"pair-xz": (Kb, Ko, Kb), "pair-yz": (Ko, Kb, Kb), "pair-xy": (Ko, Ko, Kb)}[name]
        return (lambda z: cu * sp(z), lambda z: cv * sp(z), Kx, Ky, Kz)
    if name == "const":
        c = lambda val: (lambda z: val + 0.0 * np.asarray(z))  # noqa
        return (c(2.3 * cu), c(2.3 * cv), c(1.7), c(0.6), c(0.9))
    raise ValueError(name)


def most_family(closure, L, um, vm, ustar, zm):
    speed = float(np.hypot(um, vm))
    z0 = most.z0_from_ustar(zm, speed, ustar, L)
    sp = lambda z: most.speed(z, z0, ustar, L)  # noqa
    K = lambda z: most.K(z, ustar, L)  # noqa
    u = lambda z: um / speed * sp(z)  # noqa
    v = lambda z: vm / speed * sp(z)  # noqa
    if closure == "MOSTM":
        return (u, v, lambda z: K(z) * vm**2 / speed**2, lambda z: K(z) * um**2 / speed**2, K), z0
    return (u, v, K, K, K), z0


def cases(tier):
    doms = ((200.0, 150.0), (2000.0, 1500.0))
    grids = ((8, 6), (6, 8)) if tier == "quick" else ((8, 6), (6, 8), (16, 12))
    orients = ("oblique", "x", "-y") if tier == "quick" else tuple(ORIENT)
    ns = (16, 64, 256, 1024)
    for fam, zg, dom, g, o in itertools.product(("loglin", "power", "const"), ("uniform", "geom"), doms, grids, orients):
        if fam == "const" and (zg == "geom" or o != "oblique"):
            continue
        yield {"kind": "func", "family": fam, "zgrid": zg, "dom": dom, "grid": g, "orient": o, "ns": ns}
    for fam_, zg_, dom, g in itertools.product(("veer", "kxvar"), ("uniform", "geom"), doms, grids):
        yield {"kind": "func", "family": fam_, "zgrid": zg_, "dom": dom, "grid": g, "orient": "oblique", "ns": ns}
    for fam_, zg_, g in itertools.product(("pair-xz", "pair-yz", "pair-xy"), ("uniform", "geom"), grids):
        yield {"kind": "func", "family": fam_, "zgrid": zg_, "dom": doms[0], "grid": g, "orient": "oblique", "ns": ns}
    # smooth wall: output AT the surface node, inside the viscous-scale sub-layer and aloft
    for dom, g in itertools.product(doms, grids):
        yield {"kind": "func", "family": "smoothwall", "zgrid": "geom", "dom": dom, "grid": g, "orient": "oblique", "ns": (64, 256, 1024), "z0": 1e-5, "lvfrac": [0.0, 0.125, 0.5]}
    nsm = (8, 32, 128, 512)
    winds = ((3.0, 1.0),) if tier == "quick" else ((3.0, 1.0), (0.0, -3.2), (-2.0, 2.0))
    for clo, L, dom, g, w in itertools.product(("MOST", "MOSTM"), (-50.0, 1e9, 80.0), doms, grids, winds):
        yield {"kind": "most", "closure": clo, "L": L, "dom": dom, "grid": g, "wind": w, "ns": nsm}


def case_ladder(case):
    S0 = sl.solver()
    nx, ny = case["grid"]
    dom = tuple(case["dom"])
    kx = 2 * np.pi * np.fft.fftfreq(nx, d=dom[0] / nx)
    ky = 2 * np.pi * np.fft.fftfreq(ny, d=dom[1] / ny)
    KX, KY = np.meshgrid(kx, ky)
    msk = np.ones((ny, nx), bool)
    msk[0, 0] = False
    if nx % 2 == 0:
        msk[:, nx // 2] = False
    if ny % 2 == 0:
        msk[ny // 2, :] = False
    kxm, kym = KX[msk], KY[msk]
    q0 = sl.impulse(ny, nx, 0, 0)
    rows = []
    for n in case["ns"]:
        if case["kind"] == "func":
            funcs = family(case["family"], case["orient"])
            z0, zt = case.get("z0", 0.5), 20.0
            z = np.linspace(z0, zt, n + 1) if case["zgrid"] == "uniform" else z0 * (zt / z0) ** np.linspace(0, 1, n + 1)
            prof = tuple(np.asarray(f(z), dtype=float) + 0.0 * z for f in funcs)
            lv = [int(round(fr * n)) for fr in case["lvfrac"]] if "lvfrac" in case else [n // 2, n]
        else:
            from bldfm.pbl_model import vertical_profiles

            zm, ustar = 10.0, 0.4
            um, vm = case["wind"]
            funcs, z0 = most_family(case["closure"], case["L"], um, vm, ustar, zm)
            z, prof = vertical_profiles(n, zm, (um, vm), ustar=ustar, mol=case["L"], closure=case["closure"])
            z = np.asarray(z, dtype=float)
            prof = tuple(np.asarray(p, dtype=float) for p in prof)
            lv = [n, len(z) - 1]
            zt = z[-1]
            if abs(z[0] - z0) > 1e-9 * z0 or abs(z[n] - zm) > 1e-9 * zm:
                # grid claims belong to C09; here they would only blur the comparison
                return {"v": [{"sub": "grid", "sig": "most-grid", "msg": "vertical_profiles grid does not start at z0 / contain zm at index n: z[0]=%r z0=%r z[n]=%r; case %s" % (z[0], z0, z[n], core.canon(case))}], "nt": True, "n": 1}
        _, c, f = S0(q0, z, prof, dom, lv, modes=(nx, ny), halo=0.0, precision="double")
        Hp = np.fft.fft2(c, axes=(1, 2))[:, msk]
        Hq = np.fft.fft2(f, axes=(1, 2))[:, msk]
        Rp, Rq = riccati.transfer(funcs, z[0], zt, z[lv], kxm, kym)
        dz = np.diff(z)
        nl = len(z) - 1
        Tabs = np.array([np.abs(-(prof[2][i] * kxm**2 + prof[3][i] * kym**2) - 1j * (prof[0][i] * kxm + prof[1][i] * kym)) for i in range(nl)])
        lam = np.array([np.sqrt((prof[2][i] * kxm**2 + prof[3][i] * kym**2 + 1j * (prof[0][i] * kxm + prof[1][i] * kym)) / prof[4][i]) for i in range(nl)])
        res = np.max(Tabs * (dz**2 / prof[4][:-1])[:, None], axis=0)
        growth = np.sum(lam.real * dz[:, None], axis=0)
        ep = np.abs(Hp - Rp) / np.abs(Rp).max(axis=0)
        eq = np.abs(Hq - Rq) / np.abs(Rq).max(axis=0)
        rows.append((res, growth, np.stack([ep, eq]), dz.max() / (z[-1] - z[0])))
    ok = (rows[0][0] <= 1.0) & (rows[0][1] <= 18.0)
    v = []
    nres = int(ok.sum())
    worst_c, min_ratio, judged = 0.0, np.inf, 0
    if nres:
        for k, n in enumerate(case["ns"]):
            e = rows[k][2][..., ok]
            cmax = float(e.max() / rows[k][3])
            worst_c = max(worst_c, cmax)
            if not cmax <= 16.0:
                idx = np.unravel_index(np.argmax(e), e.shape)
                v.append({"sub": "bound", "sig": "bound/%s" % ("p" if idx[0] == 0 else "q"),
                          "msg": "n=%d: error %.3e of a resolved mode is %.1f x the relative layer thickness %.3e (allowed 16 x); case %s" % (n, e[idx], cmax, rows[k][3], core.canon(case))})
            if k + 1 < len(case["ns"]):
                e2 = rows[k + 1][2][..., ok]
                # a mode whose error is already far below the allowed multiple of the layer thickness
                # (an error-sign crossing on this grid) is not asked to shrink further
                small = 0.05 * rows[k + 1][3]
                # the reduction claim is asymptotic: a pair is judged for the modes its COARSER grid resolves well
                # (|T|dz^2/Kz <= 1/16, which every mode resolved on the coarsest grid satisfies from the second grid on);
                # on the unchanged tree modes with 0.12 <= |T|dz^2/Kz <= 1 shrink by as little as 0.1-2.3 x on the first
                # quartering (error-sign crossings and higher-order terms), below 1/16 always by >= 2.5 x
                well = np.broadcast_to(rows[k][0][ok] <= 1.0 / 16.0, e2.shape)
                valid = (e2 >= 1e-9) & (e2 > small) & well
                judged += int(valid.sum())
                with np.errstate(all="ignore"):
                    r = np.where(valid, e / e2, np.inf)
                # aggregate (maximum over resolved modes), always judged
                if well.any():
                    ew, e2w = np.where(well, e, 0.0), np.where(well, e2, 0.0)
                else:
                    ew, e2w = np.zeros_like(e), np.zeros_like(e2)
                agg = ew.max(axis=-1) / np.maximum(e2w.max(axis=-1), 1e-300)
                if np.any((agg < 2.5) & (e2w.max(axis=-1) >= 1e-9) & (e2w.max(axis=-1) > small)):
                    v.append({"sub": "ratio-max", "sig": "ratio/max-norm",
                              "msg": "n=%d -> %d: maximum error over resolved modes shrinks only %s x (required 2.5 x); case %s" % (n, case["ns"][k + 1], np.round(agg, 2).tolist(), core.canon(case))})
                min_ratio = min(min_ratio, float(r.min()))
                if np.any(r < 2.5):
                    idx = np.unravel_index(np.argmin(r), r.shape)
                    v.append({"sub": "ratio", "sig": "ratio/%s" % ("p" if idx[0] == 0 else "q"),
                              "msg": "n=%d -> %d: error of a resolved mode shrinks only %.2f x (%.3e -> %.3e) when the layer thickness is quartered (required 2.5 x); case %s"
                              % (n, case["ns"][k + 1], r[idx], e[idx], e2[idx], core.canon(case))})
    return {"v": v[:4], "nt": bool(nres >= 8 and judged), "n": len(case["ns"]),
            "obs": {"resolved_modes": nres, "mode_pairs_judged": judged, "worst_err_over_relthick": round(worst_c, 2), "min_ratio": None if not np.isfinite(min_ratio) else round(min_ratio, 2)}}


def field_cases(tier):
    fams = ("loglin", "power")
    halos = (13.0, None) if tier == "quick" else (13.0, None, 30.0, 60.0)
    ns = (16, 64, 256) if tier == "quick" else (16, 64, 256, 1024)
    # "many": more than 16 output levels in one request
    # "duplicated": the same node requested twice (two instruments mapped to one grid node) - both slices are that node's solution
    for fam, fp, order in itertools.product(fams, (False, True), ("ascending", "descending", "rotated", "duplicated", "many")):
        # all halos in ONE case (one process): consecutive solves that differ only in the halo
        yield {"family": fam, "halos": list(halos), "footprint": fp, "order": order, "ns": ns}
    # the same ladder with the numerical thread count raised the way the CLI raises it (bldfm.config.NUM_THREADS)
    for fam, nthreads in itertools.product(fams, (2, 3, 4)):
        yield {"family": fam, "halos": [0.0, 13.0], "footprint": False, "order": "ascending", "ns": ns, "threads": nthreads, "modes": [8, 6]}


def case_field_ladder(case):
    """The same convergence claim observed on the RETURNED FIELDS with a zero-flux halo (the cropped output has no
    FFT of its own): reference field = Riccati transfer functions assembled through the harness' DFT restatement of
    pad / truncate / shift / crop.  Mode count (4,4) keeps only components the coarsest grid resolves; output heights
    are requested ascending or descending."""
    from vf.oracles import halfspace

    # resolution outermost, halo innermost: consecutive solves differ ONLY in the halo
    errs = {repr(h): [] for h in case["halos"]}
    for nlay in case["ns"]:
        for h in case["halos"]:
            errs[repr(h)].append(_field_error(case, h, nlay))
    v = []
    lab = core.canon(case)
    refused = [h for h in case["halos"] if any(x is None for x in errs[repr(h)])]
    if refused and not case.get("may_refuse"):
        raise ValueError("solver refused a request of the even lattice: halos %r; case %s" % (refused, lab))
    if len(refused) == len(case["halos"]):
        return {"v": [], "nt": False, "n": len(case["ns"]) * len(case["halos"]), "obs": {"refused": [repr(h) for h in refused]}}
    for h in case["halos"]:
        e = errs[repr(h)]
        if h in refused:
            continue
        for k, nlay in enumerate(case["ns"]):
            hk = 1.0 / nlay
            if not e[k] <= 16.0 * hk:
                v.append({"sub": "field-bound", "sig": "field-bound", "msg": "halo %r, n=%d: field error %.3e is %.1f x the relative layer thickness (allowed 16 x); case %s" % (h, nlay, e[k], e[k] / hk, lab)})
            if k + 1 < len(e) and e[k + 1] > max(e[k] / 2.5, 0.05 / case["ns"][k + 1]) and e[k + 1] >= 1e-9:
                v.append({"sub": "field-ratio", "sig": "field-ratio", "msg": "halo %r, n=%d -> %d: field error %.3e -> %.3e shrinks only %.2f x (required 2.5 x); case %s" % (h, nlay, case["ns"][k + 1], e[k], e[k + 1], e[k] / e[k + 1], lab)})
    return {"v": v[:4], "nt": True, "n": len(case["ns"]) * len(case["halos"]), "obs": {"errors_by_halo": {k: [("refused" if x is None else "%.3e" % x) for x in val] for k, val in errs.items()}}}


def _field_error(case, halo, n):
    from scipy.integrate import quad

    from vf.oracles import halfspace

    from bldfm import config as rt

    S0 = sl.solver()
    nx, ny = case.get("grid", (8, 6))
    dom = (25.0 * nx, 25.0 * ny)
    dx, dy = dom[0] / nx, dom[1] / ny
    funcs = family(case["family"], "oblique")
    z0, zt = 0.5, 20.0
    fp = case["footprint"]
    q = sl.impulse(ny, nx, 2, 3)
    mp = (5 * dx, 1 * dy) if fp else (0.0, 0.0)
    modes = tuple(case.get("modes", (4, 4)))
    if "threads" in case and halo == 0.0 and modes == (8, 6):
        modes = (8, 6)
    elif "threads" in case:
        modes = (4, 4)
    z = np.linspace(z0, zt, n + 1)
    prof = tuple(np.asarray(f(z), dtype=float) + 0.0 * z for f in funcs)
    lv = {"ascending": [n // 2, n], "descending": [n, n // 2], "rotated": [n // 2, n, n // 4], "duplicated": [n // 2, n, n // 2, n],
          "many": [(k * n) // 19 for k in range(20)]}[case["order"]]  # 20 output levels in one request (coarse columns repeat nodes)
    saved_threads = rt.NUM_THREADS
    try:
        rt.NUM_THREADS = case.get("threads", 1)
        _, c, f = S0(q, z, prof, dom, lv, modes=modes, halo=halo, precision="double", footprint=fp, meas_pt=mp)
    except ValueError:
        if case.get("may_refuse"):
            return None
        raise
    finally:
        rt.NUM_THREADS = saved_threads
    if modes == (8, 6):
        # all modes kept: drop the grid's Nyquist components (excluded by the property) from both sides below
        pass
    tr = lambda kx, ky: riccati.transfer(funcs, z0, zt, z[lv], kx, ky)  # noqa
    res = [quad(lambda t: 1.0 / float(funcs[4](t)), z0, zz, epsabs=1e-13, epsrel=1e-12)[0] for zz in z[lv]]
    cw, fw = halfspace.solve(q, dom, z[lv] - z0, None, modes, halo, meas_pt=mp, footprint=fp, transfer=tr, mean_resistance=res)
    cm, cwm = c - c.mean(axis=(1, 2), keepdims=True), cw - cw.mean(axis=(1, 2), keepdims=True)
    return max(sl.relerr(f, fw, np.abs(fw).max()), sl.relerr(cm, cwm, np.abs(cwm).max()))


def run(ctx):
    core.warm_numba()
    ctx.rule = (
        "complete product of the lattice in the module docstring (one ladder per case); inside a ladder every retained non-constant non-Nyquist wavenumber that the coarsest grid "
        "resolves is judged separately for p and q at two heights; non-trivial = ladders with >= 8 resolved modes and at least one judged pair; evaluations counts solver executions"
    )
    ctx.assumptions += ["reference: scipy DOP853 rtol=1e-11 on the Riccati form; decaying constant-coefficient continuation above the top node"]
    callforms.run_solver_forms(ctx)
    errorpaths.run(ctx, case_ladder, [c for c in cases(ctx.tier) if c.get('family') == 'power' and c['zgrid'] == 'geom' and c['orient'] == 'oblique' and c['dom'][0] > 1000][:2])
    ctx.run_cases(errorpaths.case_blocked_pyfftw, [{"blocked": "pyfftw"}], sub="pyfftw cannot be imported: refuse or be right", chunksize=1)
    errorpaths.run_threaded(ctx, case_ladder, [c for c in cases(ctx.tier) if c.get('family') == 'power' and c['zgrid'] == 'geom' and c['orient'] == 'oblique' and c['dom'][0] > 1000][:1] + [c for c in cases(ctx.tier) if c['kind'] == 'most' and c['dom'][0] > 1000][:1], threads=(2, 3, 8))
    res = ctx.run_cases(case_ladder, cases(ctx.tier), sub="ladder", chunksize=1)
    ctx.run_cases(case_field_ladder, field_cases(ctx.tier), sub="field-ladder-with-halo", chunksize=1)
    ctx.cov["mode_pairs_judged"] = int(sum(r.get("obs", {}).get("mode_pairs_judged", 0) for r in res))
    ctx.cov["worst_err_over_relthick"] = max([r.get("obs", {}).get("worst_err_over_relthick", 0) for r in res] + [0])
    mr = [r["obs"]["min_ratio"] for r in res if r.get("obs", {}).get("min_ratio") is not None]
    ctx.cov["min_ratio"] = min(mr) if mr else None
