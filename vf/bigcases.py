"""The size regime.  The lattices of the individual checks use small grids (8 x 6 cells, <= 17 nodes, <= 4 towers, <= 17
steps) so that they can be exhaustive; a size-dependent code path (blocks of 2^16 / 2^18 items, slabs of 16 levels, 256-row
chunks, 8- or 16-bit counters, string widths) never runs there.  This module holds ONE large configuration per size axis
- chosen to lie beyond every power-of-two boundary up to 2^20 cells / modes, 256 rows, 128 levels, 64 steps, 256 towers,
32767 nodes, and not to be a multiple of any of them - and lets each check judge it with its own oracle.

    solver grid   352 x 330 cells, default halo -> 1056 x 1034 padded cells (1 091 904 > 2^20), all modes kept
                  (1 091 904 modes > 2^18, 1034 rows > 4 x 256 and not a multiple of 256), 5 levels in double precision
                  (5 x 1 091 904 x 16 B = 83 MiB)
    columns       170 nodes with 20 / 70 / 133 requested levels; 21 000 and 33 500 layers for the profile generator
    drivers       66 and 130 time steps; 65 / 257 / 300 towers
    rasters       640 x 640 (Kormann-Meixner), 300 x 300 and 260 x 520 (contours)"""

import numpy as np

from vf import core
from vf import solverlib as sl

NX, NY, CELL = 352, 330, 5.0  # 5 m cells under a 10 m column: the shortest wave decays by exp(-6.3), resolvable in single precision too
DOM = (NX * CELL, NY * CELL)
PAD = (352, 352)  # default halo = max(domain) = 704 m = 352 cells
NXE, NYE = NX + 2 * PAD[0], NY + 2 * PAD[1]


def column(nlay=4, name="most_aniso"):
    return sl.build_profiles(name, nlay)


def solve(q, levels, prec="double", name="most_aniso", **kw):
    S = sl.solver()
    z, prof = column(4, name)
    kw.setdefault("modes", (4096, 4096))
    g, c, f = S(q, z, prof, DOM, levels, precision=prec, **kw)
    return z, prof, g, np.asarray(c), np.asarray(f)


# ------------------------------------------------------------------ C02: reciprocity on the large grid
def c02(case):
    rng = np.random.default_rng(21)
    cells = [(100, 200), (17, 333), (301, 5), (160, 180)]
    w = [1.0, -0.7, 2.0, 0.4]
    q = np.zeros((NY, NX))
    for (j, i), a in zip(cells, w):
        q[j, i] = a
    tj, ti = 150, 170
    lv = [2, 4]
    _, _, _, cd, fd = solve(q, lv, case["prec"])
    _, _, _, cf, ff = solve(np.zeros((NY, NX)), lv, case["prec"], footprint=True, meas_pt=(ti * CELL, tj * CELL))
    v = []
    tol = 1e-9 if case["prec"] == "double" else 2e-5
    for nm, d, fp in (("flux", fd, ff), ("concentration", cd, cf)):
        for l in range(2):
            got = float(sum(a * fp[l, j, i] for (j, i), a in zip(cells, w)))
            want = float(d[l, tj, ti])
            sc = max(np.abs(d[l]).max(), 1e-300)
            if not abs(got - want) <= tol * sc:
                v.append({"sub": "large-grid", "sig": "large-grid/reciprocity/%s" % nm, "msg": "%d x %d cells (padded %d x %d, all modes), %s precision, level %d: sum(source x footprint) = %.9g, forward run at the tower = %.9g (difference %.2e of the field maximum)"
                          % (NX, NY, NXE, NYE, case["prec"], lv[l], got, want, abs(got - want) / sc)})
    return {"v": v, "nt": True, "n": 2}


# ------------------------------------------------------------------ C03: conservation on a periodic domain of the padded size, 5 levels
def c03(case):
    S = sl.solver()
    z, prof = column(4)
    nz = len(z)
    levels = [0, 2, 4, nz - 1, 1]
    rng = np.random.default_rng(5)
    q = rng.random((NYE, NXE)) + 0.25
    bg = 3.0
    _, c, f = S(q, z, prof, (NXE * CELL, NYE * CELL), levels, modes=(4096, 4096), halo=0.0, precision=case["prec"], srf_bg_conc=bg)
    c, f = np.asarray(c, dtype=float), np.asarray(f, dtype=float)
    qm = q.mean()
    Rtr = sl.resistance_trapezoid(z, prof[4])[levels]
    tol = 1e-9 if case["prec"] == "double" else 2e-5
    v = []
    fm = f.reshape(len(levels), -1).mean(axis=1)
    cm = c.reshape(len(levels), -1).mean(axis=1)
    if not np.all(np.abs(fm - qm) <= tol * max(qm, np.abs(f).max() if case["prec"] == "single" else qm)):
        v.append({"sub": "large-grid", "sig": "large-grid/flux-mean", "msg": "periodic domain of %d x %d cells, levels %r, %s: mean flux per level %s, mean source %.12g" % (NXE, NYE, levels, case["prec"], np.round(fm, 10).tolist(), qm)})
    want = bg - qm * Rtr
    if not np.all(np.abs(cm - want) <= tol * (abs(bg) + qm * Rtr.max())):
        k = int(np.argmax(np.abs(cm - want)))
        v.append({"sub": "large-grid", "sig": "large-grid/conc-mean", "msg": "periodic domain of %d x %d cells, levels %r, %s: mean concentration of slot %d (node %d) is %.10g, background - mean source x resistance = %.10g"
                  % (NXE, NYE, levels, case["prec"], k, levels[k], cm[k], want[k])})
    return {"v": v, "nt": True, "n": 1}


# ------------------------------------------------------------------ C06: tower shift, more than 256 rows of modes
def c06(case):
    S = sl.solver()
    z, prof = column(4)
    q0 = np.zeros((NY, NX))
    kw = dict(modes=(4096, 4096), halo=0.0, precision="double", footprint=True)
    base = (7.3 * CELL, 11.0 * CELL)
    _, c0, f0 = S(q0, z, prof, DOM, [2, 4], meas_pt=base, **kw)
    v = []
    for (ki, kj) in ((1, 0), (200, 301), (345, 7)):
        _, c1, f1 = S(q0, z, prof, DOM, [2, 4], meas_pt=(base[0] + ki * CELL, base[1] + kj * CELL), **kw)
        for nm, a, b in (("conc", c1, c0), ("flx", f1, f0)):
            want = np.roll(np.asarray(b), (kj, ki), axis=(1, 2))
            e = sl.relerr(a, want, max(np.abs(want).max(), 1e-300))
            if not e <= 1e-9:
                v.append({"sub": "large-grid", "sig": "large-grid/tower-shift", "msg": "%d x %d cells without halo, all %d x %d modes: moving the tower by (%d, %d) whole cells does not translate %s by those cells (deviation %.2e of the maximum)" % (NX, NY, NX, NY, ki, kj, nm, e)})
                break
    return {"v": v[:2], "nt": True, "n": 4}


# ------------------------------------------------------------------ C07: axis swap, more than 512 x 512 modes
def c07(case):
    S = sl.solver()
    z, prof = column(4)
    u, vv, Kx, Ky, Kz = prof
    rng = np.random.default_rng(9)
    q = np.zeros((NY, NX))
    q[rng.integers(0, NY, 40), rng.integers(0, NX, 40)] = rng.random(40) + 0.5
    fp = case["footprint"]
    mp = (120 * CELL, 77 * CELL)
    kw = dict(precision="double", footprint=fp)
    _, c, f = S(q, z, prof, DOM, [2, 4], modes=(NXE, NYE), meas_pt=mp, **kw)
    _, ct, ft = S(q.T.copy(), z, (vv, u, Ky, Kx, Kz), (DOM[1], DOM[0]), [2, 4], modes=(NYE, NXE), meas_pt=(mp[1], mp[0]), **kw)
    v = []
    for nm, a, b in (("conc", ct, c), ("flx", ft, f)):
        want = np.swapaxes(np.asarray(b), -1, -2)
        e = sl.relerr(a, want, max(np.abs(want).max(), 1e-300))
        if not e <= 1e-9:
            v.append({"sub": "large-grid", "sig": "large-grid/transpose", "msg": "%d x %d cells, %d x %d modes, %s: the axis-swapped problem does not return the transposed %s (deviation %.2e of the maximum)" % (NX, NY, NXE, NYE, "footprint" if fp else "dispersion", nm, e)})
    return {"v": v, "nt": True, "n": 2}


# ------------------------------------------------------------------ C11: registration anchor, more than 2^18 modes
def c11(case):
    rng = np.random.default_rng(13)
    q = rng.random((NY, NX))
    z, prof, g, c, f = solve(q, [0, 3], "double", **({"halo": 0.0} if case["halo"] == 0.0 else {}))
    v = []
    e = float(np.abs(f[0] - q).max() / np.abs(q).max())
    if f.shape != (2, NY, NX) or not e <= 1e-9:
        v.append({"sub": "large-grid", "sig": "large-grid/anchor", "msg": "%d x %d cells, halo %r, every mode kept: the flux at the lowest node differs from the source by %.2e of its maximum (shape %s) - components inside the cut-off are missing or misplaced" % (NX, NY, case["halo"], e, f.shape)})
    X, Y = np.asarray(g[0]), np.asarray(g[1])
    if not (np.allclose(X.reshape(-1, NY, NX)[0][0], np.arange(NX) * CELL, rtol=1e-13, atol=1e-10) and np.allclose(Y.reshape(-1, NY, NX)[0][:, 0], np.arange(NY) * CELL, rtol=1e-13, atol=1e-10)):
        v.append({"sub": "large-grid", "sig": "large-grid/coords", "msg": "%d x %d cells: returned coordinates are not x=i*dx, y=j*dy" % (NX, NY)})
    return {"v": v, "nt": True, "n": 1}


# ------------------------------------------------------------------ C12: repeats and precisions, more than 64 MiB of levels x cells
def c12(case):
    rng = np.random.default_rng(17)
    q = rng.random((NY, NX)) + 0.1
    lv = [4, 0, 2, 1, 3, 6, 5]
    outs = {}
    for tag, prec in (("double-1", "double"), ("single-1", "single"), ("double-2", "double"), ("single-2", "single")):
        _, _, _, c, f = solve(q, lv, prec, srf_bg_conc=0.75)
        outs[tag] = (c, f)
    v = []
    for prec in ("double", "single"):
        a, b = outs[prec + "-1"], outs[prec + "-2"]
        if a[0].tobytes() != b[0].tobytes() or a[1].tobytes() != b[1].tobytes():
            v.append({"sub": "large-grid", "sig": "large-grid/bit-identity/%s" % prec, "msg": "%d x %d cells, %d levels, %s precision: the same solve repeated in one process (other solves in between) is not bit-identical" % (NX, NY, len(lv), prec)})
    for k, nm in ((0, "conc"), (1, "flx")):
        e = sl.relerr(outs["single-1"][k].astype(float), outs["double-1"][k], max(np.abs(outs["double-1"][k]).max(), 1e-300))
        if not e <= 1e-5:
            v.append({"sub": "large-grid", "sig": "large-grid/single-vs-double", "msg": "%d x %d cells, %d levels: single-precision %s differs from double precision by %.2e of the field maximum (allowed 1e-5)" % (NX, NY, len(lv), nm, e)})
    return {"v": v, "nt": True, "n": 4}


# ------------------------------------------------------------------ many output levels (small grid, 170-node column)
def _tall_column(name="most_aniso"):
    z, prof = sl.build_profiles(name, 96)
    return z, prof


def c04(case):
    """more than 16 output levels: a background is a uniform offset at EVERY level and leaves every flux slice alone"""
    S = sl.solver()
    z, prof = _tall_column()
    nz = len(z)
    lv = [(k * (nz - 1)) // 22 for k in range(23)][::-1] if case["order"] == "descending" else [(k * (nz - 1)) // 22 for k in range(23)]
    q = np.random.default_rng(3).random((6, 8)) + 0.2
    kw = dict(modes=(8, 6), halo=13.0, precision="double", analytic=case["analytic"])
    if case["analytic"]:
        z, prof = sl.build_profiles("const", 96)
    _, c0, f0 = S(q, z, prof, (80.0, 90.0), lv, **kw)
    _, c1, f1 = S(q, z, prof, (80.0, 90.0), lv, srf_bg_conc=2.5, **kw)
    v = []
    e = np.abs(np.asarray(c1) - np.asarray(c0) - 2.5).reshape(len(lv), -1).max(axis=1)
    if not np.all(e <= 1e-9 * max(np.abs(c0).max(), 2.5)):
        k = int(np.argmax(e))
        v.append({"sub": "many-levels", "sig": "many-levels/background-offset", "msg": "%d output levels (%s, %s): conc(bg=2.5) - conc(bg=0) at slot %d (node %d) deviates from 2.5 by %.3g" % (len(lv), case["order"], "analytic" if case["analytic"] else "numeric", k, lv[k], e[k])})
    if not sl.relerr(f1, f0, max(np.abs(f0).max(), 1e-300)) <= 1e-9:
        v.append({"sub": "many-levels", "sig": "many-levels/background-flux", "msg": "%d output levels: the flux changes with the background" % len(lv)})
    return {"v": v, "nt": True, "n": 2}


def c10(case):
    """more than 128 output levels of a 170-node column, shuffled: slot k is the single-level solve of its level, at its height"""
    S = sl.solver()
    z, prof = _tall_column("const" if case["analytic"] else "most_aniso")
    nz = len(z)
    rng = np.random.default_rng(7)
    lv = [int(x) for x in rng.permutation(nz)[:133]] if case["kind"] == "shuffled-133" else list(range(nz))[:: (1 if case["kind"] == "full" else -1)]
    q = rng.random((4, 6)) + 0.1
    kw = dict(modes=(6, 4), halo=0.0, precision=case["prec"], footprint=case["footprint"], analytic=case["analytic"], meas_pt=(20.0, 15.0), srf_bg_conc=1.5)
    g, c, f = S(q, z, prof, (60.0, 60.0), lv, **kw)
    c, f, Z = np.asarray(c), np.asarray(f), np.asarray(g[2])
    v = []
    tol = 1e-12 if case["prec"] == "double" else 1e-6
    probe = sorted(set([0, 1, 15, 16, 17, 63, 64, 65, 127, 128, 129, 130, len(lv) - 1]))
    for k in probe:
        if k >= len(lv):
            continue
        _, c1, f1 = S(q, z, prof, (60.0, 60.0), lv[k], **kw)
        zk = np.unique(Z.reshape(len(lv), -1)[k])
        if zk.size != 1 or zk[0] != z[lv[k]]:
            v.append({"sub": "many-levels", "sig": "many-levels/height", "msg": "%d levels (%s): height of slot %d is %r, expected z[%d]=%r" % (len(lv), case["kind"], k, zk[:2].tolist(), lv[k], z[lv[k]])})
        for nm, a, b in (("conc", c[k], c1), ("flx", f[k], f1)):
            e = sl.relerr(a, np.asarray(b), max(np.abs(c).max() if nm == "conc" else np.abs(f).max(), 1e-300))
            if not e <= tol:
                v.append({"sub": "many-levels", "sig": "many-levels/slice", "msg": "%d levels (%s, %s, %s): %s slot %d (level %d) differs from the single-level solve by %.2e of the field maximum" % (len(lv), case["kind"], "analytic" if case["analytic"] else "numeric", case["prec"], nm, k, lv[k], e)})
                break
        if len(v) >= 3:
            break
    return {"v": v[:3], "nt": True, "n": len(probe) + 1}


def c13(case):
    """more than 64 configured output levels (every second node from the top down) through the single run == the pipeline"""
    import copy
    import warnings

    from bldfm.config_parser import parse_config_dict
    from bldfm.interface import run_bldfm_single
    from vf.checks import c13 as m

    raw = copy.deepcopy(m.DEFAULT)
    raw["domain"].update({"nz": 100})
    cfg0 = parse_config_dict(copy.deepcopy(raw))
    with warnings.catch_warnings():
        warnings.simplefilter("ignore")
        from bldfm.pbl_model import vertical_profiles
        from bldfm.utils import compute_wind_fields

        st = cfg0.met.get_step(0)
        nnodes = len(vertical_profiles(100, cfg0.towers[0].z_m, compute_wind_fields(st["wind_speed"], st["wind_dir"]), ustar=st["ustar"], mol=st["mol"])[0])
    lv = list(range(nnodes - 1, 0, -2))[: case["count"]]
    raw["domain"]["output_levels"] = lv
    raw["solver"] = {"footprint": case["footprint"]}
    cfg = parse_config_dict(raw)
    with warnings.catch_warnings():
        warnings.simplefilter("ignore")
        r = run_bldfm_single(cfg, cfg.towers[0])
        (g, c, f), st = m.manual(cfg, cfg.towers[0], 0, None)
    v = []
    if np.shape(r["conc"]) != np.shape(c) or not (np.array_equal(r["conc"], c) and np.array_equal(r["flx"], f) and np.array_equal(r["grid"][2], g[2])):
        v.append({"sub": "many-levels", "sig": "many-levels/pipeline", "msg": "%d configured output levels %r...: the run (shape %s) differs from the hand-written pipeline (shape %s) in fields or heights" % (len(lv), lv[:4], np.shape(r["conc"]), np.shape(c))})
    return {"v": v, "nt": True, "n": 2}


# ------------------------------------------------------------------ very many layers in the profile generator
def c09(case):
    import warnings

    from bldfm.pbl_model import vertical_profiles
    from vf.oracles import most

    n, clo = case["n"], case["closure"]
    zm, um, vm, us, L = 10.0, 3.0, -1.5, 0.35, 80.0  # stable: the known finding D9 (reversed wind next to z0 for L < 0) reaches several nodes on so fine a grid
    kw = {"tke": 0.8} if clo == "OAAHOC" else {}
    with warnings.catch_warnings():
        warnings.simplefilter("ignore")
        z, (u, vv, Kx, Ky, Kz) = vertical_profiles(n, zm, (um, vm), ustar=us, mol=L, closure=clo, **kw)
    z, u, vv, Kz = (np.asarray(a, dtype=float).ravel() for a in (z, u, vv, Kz * np.ones(len(np.ravel(z)))))
    v = []

    def bad(sig, msg):
        v.append({"sub": "many-layers", "sig": "many-layers/" + sig, "msg": "n=%d layers, closure %s: %s" % (n, clo, msg)})

    if not (np.all(np.isfinite(z)) and np.all(np.diff(z) > 0)):
        k = int(np.argmax(~(np.diff(z) > 0)))
        bad("grid", "the grid is not strictly increasing (first at node %d: %r -> %r)" % (k, z[k], z[k + 1]))
    if len(z) <= n or abs(z[n] - zm) > 1e-9 * zm:
        bad("zm", "z[n] = %r, measurement height %g (nodes: %d)" % (z[n] if len(z) > n else None, zm, len(z)))
    if z[-1] < 2 * zm * (1 - 1e-12):
        bad("top", "the grid ends at %.6g below the domain height %g" % (z[-1], 2 * zm))
    if not np.all(Kz > 0):
        bad("K", "vertical diffusivity not positive at %d nodes" % int((~(Kz > 0)).sum()))
    sp = np.hypot(u, vv)
    ok = sp > 1e-9
    if np.any(np.hypot(u[ok] / sp[ok] - um / np.hypot(um, vm), vv[ok] / sp[ok] - vm / np.hypot(um, vm))[1:] > 1e-8):
        bad("direction", "the wind direction changes with height")
    return {"v": v[:3], "nt": True, "n": 1}


# ------------------------------------------------------------------ many time steps / many towers through the drivers
def c16(case):
    import warnings

    import bldfm.interface as bi
    from vf.checks import c14

    ns = case["steps"]
    cfg = c14.big_config(case.get("towers", 1), ns, case["stamps"])
    v = []
    with warnings.catch_warnings():
        warnings.simplefilter("ignore")
        ref = {t.name: [bi.run_bldfm_single(cfg, t, met_index=i) for i in range(ns)] for t in cfg.towers}
        if case["driver"] == "timeseries":
            res = {t.name: bi.run_bldfm_timeseries(cfg, t) for t in cfg.towers}
        elif case["driver"] == "multitower":
            res = bi.run_bldfm_multitower(cfg)
        else:
            res = bi.run_bldfm_parallel(cfg, max_workers=3, parallel_over=case["driver"].split("-")[1])
    for m_ in c14._compare(res, ref, cfg, ns, "%s, %d tower(s) x %d steps, %s timestamps" % (case["driver"], len(cfg.towers), ns, "with" if case["stamps"] else "without"))[:2]:
        v.append({"sub": "many-steps", "sig": "many-steps/%s" % case["driver"], "msg": m_})
    return {"v": v, "nt": True, "n": 2 * ns * len(cfg.towers)}


def c14(case):
    return c16(case)


def c17(case):
    from bldfm.config_parser import parse_config_dict
    from bldfm.plotting._geo import xy_to_latlon
    from vf.oracles import geo

    rlat, rlon = case["ref"]
    nt = case["towers"]
    offs = [(((k * 37) % 101) * 40.0 - 2000.0, ((k * 53) % 97) * 35.0 - 1700.0) for k in range(nt)]  # east and west, north and south of the origin
    tw = []
    for k, (x, y) in enumerate(offs):
        la, lo = geo.place(rlat, rlon, x, y)
        tw.append({"name": "t%03d" % k, "lat": la, "lon": (lo + 180.0) % 360.0 - 180.0, "z_m": 3.0 + (k % 5)})
    cfg = parse_config_dict({"domain": {"nx": 4, "ny": 4, "xmax": 40.0, "ymax": 40.0, "nz": 2, "ref_lat": rlat, "ref_lon": rlon}, "towers": tw, "met": {"ustar": 0.3}})
    v = []
    for t, (x, y) in zip(cfg.towers, offs):
        if abs(t.x - x) > 1e-5 or abs(t.y - y) > 1e-5:
            v.append({"sub": "many-towers", "sig": "many-towers/position", "msg": "%d towers, reference (%g, %g): tower %s sits at local (%.3f, %.3f) m, its lat/lon place it at (%.3f, %.3f) m" % (nt, rlat, rlon, t.name, t.x, t.y, x, y)})
            break
    return {"v": v, "nt": True, "n": nt}


# ------------------------------------------------------------------ large rasters
def c19(case):
    import warnings

    from bldfm.ffm_kormann_meixner import estimateFootprint
    from vf.oracles import km

    n = case["cells"]
    res = 2.0
    dom = [-n * res / 2, n * res / 2, -n * res / 2, n * res / 2]
    zm, z0, ws, us, L, sv = 5.0, 0.1, 3.0, 0.3, -200.0, 1.2
    v = []
    for wd in case["wds"]:
        with warnings.catch_warnings():
            warnings.simplefilter("ignore")
            gx, gy, f = estimateFootprint(zm, z0, ws, us, L, sv, dom, res, [0.0, 0.0], wd=wd)
        ex = np.arange(dom[0] + 0.5 * res, dom[1], res)
        ey = np.arange(dom[3] - 0.5 * res, dom[2], -res)
        EX, EY = np.meshgrid(ex, ey)
        if np.shape(f) != EX.shape:
            v.append({"sub": "large-raster", "sig": "large-raster/shape", "msg": "%d x %d cells, wd=%r: footprint shape %s" % (n, n, wd, np.shape(f))})
            continue
        xr, yr = km.rotate(EX, EY, wd) if wd is not None else (EX, EY)
        o, _ = km.footprint(xr, yr, zm, z0, ws, us, L, sv)
        ok = np.abs(xr) > 1e-9
        sc = max((o * res**2).max(), 1e-300)
        e = np.abs(f - o * res**2)[ok].max() / sc
        if not e <= 1e-9:
            v.append({"sub": "large-raster", "sig": "large-raster/cells", "msg": "%d x %d cells (%d > 65536), wd=%r: cell values differ from the published form by %.2e of the maximum (sum %.4g, expected %.4g)" % (n, n, n * n, wd, e, f.sum(), (o * res**2)[ok].sum())})
    return {"v": v[:3], "nt": True, "n": len(case["wds"])}


def c20(case):
    from bldfm.plotting import extract_percentile_contour
    from bldfm.utils import get_source_area

    ny, nx = case["shape"]
    rng = np.random.default_rng(ny * 1000 + nx)
    f = rng.random((ny, nx)) ** 3
    if case.get("sparse"):
        f[rng.random((ny, nx)) < 0.5] = 0.0
    dx, dy = 2.0, 4.0
    x, y = np.arange(nx) * dx, np.arange(ny) * dy
    Y2, X2 = np.meshgrid(y, x, indexing="ij")
    v = []
    flat = np.sort(f.ravel())[::-1]
    cum = np.cumsum(flat)
    for p in (0.5, 0.8, 0.95, 1.0):
        target = p * cum[-1]
        k = int(np.searchsorted(cum, target)) + 1
        k = min(k, flat.size)
        for gname, grid, ff in (("2-D", (X2, Y2, np.zeros((ny, nx))), f), ("1-D", (x, y, np.zeros(1)), f), ("3-D level 1", (np.stack([X2] * 2), np.stack([Y2] * 2), np.zeros((2, ny, nx))), np.stack([f * 0 + 1.0, f]))):
            lev, area = extract_percentile_contour(ff, grid, pct=p, **({"level": 1} if gname.startswith("3-D") else {}))
            # neighbouring counts allowed where p*total coincides with a partial sum up to rounding
            oks = [(kk * dx * dy, float(flat[kk - 1])) for kk in (k - 1, k, k + 1) if 1 <= kk <= flat.size and abs(cum[kk - 1] - target) <= 1e-9 * cum[-1] or kk == k]
            if not any(area == a and lev == l for a, l in oks):
                v.append({"sub": "large-raster", "sig": "large-raster/contour", "msg": "%d x %d cells (%d > 65536), %s coordinates, p=%g: level %r area %r; the fewest top cells reaching p x total are %d (level %r, area %r)" % (ny, nx, ny * nx, gname, p, lev, area, k, float(flat[k - 1]), k * dx * dy)})
                break
    # rescaled field on the large raster: sums over larger g, non-increasing in g
    g = rng.random((ny, nx))
    r = np.asarray(get_source_area(f, g)).ravel()
    order = np.argsort(-g.ravel(), kind="stable")
    want = np.concatenate([[0.0], np.cumsum(f.ravel()[order])[:-1]])
    if not np.allclose(r[order], want, rtol=1e-12, atol=1e-12 * cum[-1]):
        v.append({"sub": "large-raster", "sig": "large-raster/rescale", "msg": "%d x %d cells: rescaled field differs from the sum of f over cells with larger g (max %.3g)" % (ny, nx, np.abs(r[order] - want).max())})
    if np.any(np.diff(r[order]) < 0):
        v.append({"sub": "large-raster", "sig": "large-raster/monotone", "msg": "%d x %d cells: the rescaled field INCREASES with g at %d places (a sum over more non-negative cells came out smaller)" % (ny, nx, int((np.diff(r[order]) < 0).sum()))})
    return {"v": v[:3], "nt": True, "n": 13}


def c08(case):
    import math

    from vf.checks import c08 as m

    v = []
    for wd in case["wds"]:
        cfg = m.make_cfg({"grid": "large", "origin": "NE", "closure": "MOST", "mol": -100.0, "speed": 4.0}, wd)
        from bldfm.interface import run_bldfm_single

        r = run_bldfm_single(cfg, cfg.towers[0])
        nx, ny, xmax, ymax = m.GRIDS["large"]
        b, e = m._bearing_error(dict(r, tower_xy=(xmax / 2, ymax / 2)), xmax, ymax, wd)
        if e > m.TOL_DEG:
            v.append({"sub": "large-grid", "sig": "large-grid/bearing", "msg": "%d x %d cells (padded %d x %d > 2^20 cells), wind_dir=%d: footprint centre of mass at bearing %.1f (error %.1f deg)" % (nx, ny, 3 * nx, 3 * ny, wd, b, e)})
    return {"v": v, "nt": True, "n": len(case["wds"])}


# ------------------------------------------------------------------ C05 (thorough tier): more than 2^24 cells, analytic mode vs the closed form by FFT
def c05(case):
    """periodic domain (halo=0) of more than 2^24 cells, every mode kept: the analytic mode is, per Fourier component, the
    closed-form half-space solution - evaluated here with numpy's FFT (the DFT-matrix oracle of the small lattice would need
    10^14 entries), one output level"""
    from vf.oracles import halfspace

    S = sl.solver()
    ny, nx = case["shape"]
    dx = dy = 4.0
    dom = (nx * dx, ny * dy)
    pv = (2.3, -1.1, 1.7, 0.6, 0.9)
    z = np.array([0.05, 1.1, 3.9, 5.0])
    prof = tuple(np.full(len(z), x) for x in pv)
    rng = np.random.default_rng(2)
    q = np.zeros((ny, nx))
    jj, ii = rng.integers(0, ny, 200), rng.integers(0, nx, 200)
    q[jj, ii] = rng.random(200) + 0.5  # not mirror-symmetric
    _, c, f = S(q, z, prof, dom, 2, modes=(1 << 14, 1 << 14), halo=0.0, precision="double", analytic=True, srf_bg_conc=1.25)
    kx = 2 * np.pi * np.fft.fftfreq(nx, d=dx)
    ky = 2 * np.pi * np.fft.fftfreq(ny, d=dy)
    KX, KY = np.meshgrid(kx, ky)
    rp, rq, _ = halfspace.transfer(KX, KY, z[2] - z[0], pv)
    Q = np.fft.fft2(q)
    rp = np.where((KX == 0) & (KY == 0), 0.0, rp)
    cw = np.fft.ifft2(Q * rp).real + 1.25 - q.mean() * (z[2] - z[0]) / pv[4]
    fw = np.fft.ifft2(Q * np.where((KX == 0) & (KY == 0), 1.0, rq)).real
    v = []
    for nm, a, b in (("conc", c, cw), ("flux", f, fw)):
        e = sl.relerr(np.asarray(a, dtype=float), b, max(np.abs(b).max(), 1e-300))
        if not e <= 1e-9:
            v.append({"sub": "large-grid", "sig": "large-grid/closed-form/%s" % nm, "msg": "%d x %d cells (%d > 2^24), analytic mode: %s differs from the closed form by %.2e of the field maximum" % (nx, ny, nx * ny, nm, e)})
    return {"v": v, "nt": True, "n": 1}


CASES = {
    "C05": (c05, [{"shape": [4000, 4200]}]),
    "C04": (c04, [{"order": o, "analytic": a} for o in ("ascending", "descending") for a in (False, True)]),
    "C08": (c08, [{"wds": [30, 200]}, {"wds": [115, 290]}]),
    "C09": (c09, [{"n": n_, "closure": c_} for n_ in (21000, 33500) for c_ in ("MOST", "MOSTM", "CONSTANT", "OAAHOC")]),
    "C10": (c10, [{"kind": k_, "footprint": fp_, "analytic": an_, "prec": "double"} for k_ in ("shuffled-133", "full", "full-descending") for fp_ in (False, True) for an_ in (False, True)]),
    "C13": (c13, [{"count": 70, "footprint": True}, {"count": 80, "footprint": False}]),
    "C14": (c14, [{"driver": "parallel-both", "towers": 257, "steps": 2, "stamps": True}]),
    "C16": (c16, [{"driver": d_, "steps": s_, "stamps": st_} for d_ in ("timeseries", "multitower", "parallel-towers") for s_, st_ in ((66, False), (130, True))]),
    "C17": (c17, [{"ref": list(r_), "towers": n_} for r_ in ((47.3, 11.5), (-17.0, 179.999)) for n_ in (64, 65, 300)]),
    "C19": (c19, [{"cells": 640, "wds": [180.0, 150.0, 0.0]}, {"cells": 400, "wds": [None, 90.0, 200.0]}]),
    "C20": (c20, [{"shape": [300, 300]}, {"shape": [260, 520], "sparse": True}, {"shape": [256, 256]}]),
    "C02": (c02, [{"prec": "double"}, {"prec": "single"}]),
    "C03": (c03, [{"prec": "double"}, {"prec": "single"}]),
    "C06": (c06, [{"grid": "352x330"}]),
    "C07": (c07, [{"footprint": False}, {"footprint": True}]),
    "C11": (c11, [{"halo": None}, {"halo": 0.0}]),
    "C12": (c12, [{"levels": 7}]),
}


def run(ctx, prop, sub="the size regime: more than 2^20 padded cells, 2^18 modes, 256 rows"):
    fn, cases = CASES[prop]
    return ctx.run_cases(fn, cases, sub=sub, chunksize=1)
