import argparse
import importlib
import json
import os
import sys
import traceback

sys.path.insert(0, os.path.dirname(os.path.dirname(os.path.abspath(__file__))))
from vf import core  # noqa: E402


def selftest():
    core.setup_paths()
    core.assert_repo()
    import numpy, scipy, numba, pyfftw, xarray, netCDF4, yaml  # noqa

    import shutil, tempfile

    for tool in ("tlc", "python3-vt"):
        if not shutil.which(tool):
            print("setup: WARNING %s not on PATH" % tool)
    d = tempfile.mkdtemp()
    os.rmdir(d)
    core.warm_numba()
    print("setup ok: bldfm from", core.SRC)
    return 0


def main():
    ap = argparse.ArgumentParser()
    ap.add_argument("prop", nargs="?")
    ap.add_argument("--tier", default=os.environ.get("VERIF_TIER", "quick"))
    ap.add_argument("--seed", type=int, default=int(os.environ.get("VERIF_SEED", "0") or 0))
    ap.add_argument("--replay")
    ap.add_argument("--selftest-env", action="store_true")
    a = ap.parse_args()
    if a.selftest_env:
        return selftest()
    if a.tier not in ("quick", "thorough"):
        a.tier = "quick"
    core.setup_paths()
    prop = a.prop.upper()
    modname = "vf.checks.%s" % prop.lower()
    try:
        core.assert_repo()
        mod = importlib.import_module(modname)
        if a.replay:
            return replay(mod, a.replay, a.seed)
        ctx = core.Ctx(prop, mod.LEVEL, a.tier, a.seed)
        try:
            mod.run(ctx)
            code = ctx.finish(modname)
        finally:
            ctx.close()
        return code
    except core.HarnessError as e:
        print("HARNESS-ERROR property=%s %s" % (prop, e))
        return 2
    except Exception:
        print("HARNESS-ERROR property=%s unexpected:\n%s" % (prop, traceback.format_exc()))
        return 2


def replay(mod, path, seed):
    with open(path) as f:
        rec = json.load(f)
    os.environ["VERIF_SEED"] = str(rec.get("seed", seed))
    os.environ["VERIF_TIER"] = rec.get("tier", "quick")
    import tempfile, shutil

    d = tempfile.mkdtemp(prefix="bldfm_replay_")
    os.chdir(d)
    try:
        res = core._call((mod.__name__, rec["fn"], rec["case"]))
    finally:
        os.chdir("/")
        shutil.rmtree(d, ignore_errors=True)
    if "harness_error" in res:
        print("HARNESS-ERROR", res["harness_error"])
        return 2
    print("replay of %s: case %s" % (path, core.canon(rec["case"])[:1000]))
    print("recorded : [%s] %s" % (rec.get("signature"), rec.get("message")))
    if res["v"]:
        for v in res["v"]:
            print("observed : [%s] %s" % (v.get("sig"), v.get("msg")))
        print("VIOLATION property=%s replay=%s" % (rec["property"], path))
        return 1
    print("observed : no violation (obs=%s)" % (res.get("obs"),))
    return 0


if __name__ == "__main__":
    code = main()
    sys.stdout.flush()
    sys.stderr.flush()
    os._exit(code)
