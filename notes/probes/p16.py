import numpy as np, math
from bldfm.config_parser import latlon_to_xy
from bldfm.plotting._geo import xy_to_latlon
R=6371000.0
def hav(lat1,lon1,lat2,lon2):
    p1,p2=math.radians(lat1),math.radians(lat2); dl=math.radians(lon2-lon1)
    a=math.sin((p2-p1)/2)**2+math.cos(p1)*math.cos(p2)*math.sin(dl/2)**2
    d=2*R*math.asin(math.sqrt(a))
    b=math.degrees(math.atan2(math.sin(dl)*math.cos(p2), math.cos(p1)*math.sin(p2)-math.sin(p1)*math.cos(p2)*math.cos(dl)))%360
    return d,b
wd=0;wb=0;wr=0
for rlat in (-60,-45,-10,0,10,45,60):
  for rlon in (-180,-179.99,-90,0,11.5,179.99,180):
    for dist in (1.,50.,500.,5000.):
      for az in range(0,360,15):
        x=dist*math.sin(math.radians(az)); y=dist*math.cos(math.radians(az))
        lat,lon=xy_to_latlon(x,y,rlat,rlon)
        x2,y2=latlon_to_xy(float(lat),float(lon),rlat,rlon)
        wr=max(wr,abs(x2-x),abs(y2-y))
        d,b=hav(rlat,rlon,float(lat),float(lon))
        wd=max(wd,abs(math.hypot(x2,y2)-d)/d)
        wb=max(wb,abs((math.degrees(math.atan2(x2,y2))-b+180)%360-180))
print("roundtrip m",wr,"dist rel",wd,"bearing deg",wb)
lat,lon=50.123,11.5; x,y=latlon_to_xy(lat,lon,50.,11.); print(xy_to_latlon(x,y,50.,11.))
print(xy_to_latlon(np.array([0.,10.]),np.array([5.,0.]),50.,11.))
