import subprocess, os, sys, shutil, json, concurrent.futures as cf
M=[
("m14_ascompleted","src/bldfm/interface.py","            flat_results = list(pool.map(_worker_single, tasks))\n","            from concurrent.futures import as_completed\n            futs = [pool.submit(_worker_single, t) for t in tasks]\n            flat_results = [f.result() for f in as_completed(futs)]\n"),
("m14_time_ascompleted","src/bldfm/interface.py","                step_results = list(pool.map(_worker_single, tasks))\n","                from concurrent.futures import as_completed\n                futs = [pool.submit(_worker_single, t) for t in tasks]\n                step_results = [f.result() for f in as_completed(futs)]\n"),
("m16_ts_shift","src/bldfm/config_parser.py","result[\"timestamp\"] = self.timestamps[i]","result[\"timestamp\"] = self.timestamps[min(i + 1, len(self.timestamps) - 1)]"),
("m09_phi_exp","src/bldfm/pbl_model.py","np.power(1.0 - 16.0 * x, -0.5, dtype=complex).real\n    )","np.power(1.0 - 16.0 * x, -0.25, dtype=complex).real\n    )"),
("m18_lat_rev","src/bldfm/io.py","tower_lats = [t.lat for t in config.towers]","tower_lats = [t.lat for t in config.towers][::-1]"),
("m20_side_right","src/bldfm/plotting/footprint.py","k = np.searchsorted(cumsum, target)","k = np.searchsorted(cumsum, target, side=\"right\")"),
("m06_recentre_sign","src/bldfm/solver.py","shift = np.exp(1j * (Lx * (xm - xmx / 2) + Ly * (ym - ymx / 2)))","shift = np.exp(-1j * (Lx * (xm - xmx / 2) + Ly * (ym - ymx / 2)))"),
("m02_ifft","src/bldfm/solver.py","        q = fft2(fftq, norm=\"backward\").real  # kinematic flux","        q = ifft2(fftq, norm=\"forward\").real  # kinematic flux"),
("m13_z0_precedence","src/bldfm/interface.py","    if z0_val is not None:\n        z, profiles","    if z0_val is not None and met_step[\"ustar\"] is None:\n        z, profiles"),
("m19_cellarea","src/bldfm/ffm_kormann_meixner.py","        grid_res**2\n","        grid_res**2 * 1.02\n"),
("m13_levels","src/bldfm/interface.py","        levels = dom.nz\n","        levels = dom.nz - 1\n"),
("m13_modes_drop","src/bldfm/interface.py","        modes=dom.modes,\n","        modes=(dom.nx, dom.ny),\n"),
("m04_src_norm","src/bldfm/solver.py","        fftq0 = fft2(q0, norm=\"forward\")  # fft of source\n","        fftq0 = fft2(q0, norm=\"forward\")  # fft of source\n        if np.abs(q0).max() > 1e3:\n            fftq0 = fftq0 / np.abs(q0).max() * 1e3\n"),
("m17_y_south","src/bldfm/plotting/_geo.py","lats = ref_lat + np.degrees(y / R)","lats = ref_lat - np.degrees(y / R)"),
("m12_out_buffer","src/bldfm/solver.py","    result = (grid, np.squeeze(conc), np.squeeze(flx))\n","    _OUT[conc.shape] = conc = _OUT.get(conc.shape, conc) * 0 + conc\n    result = (grid, np.squeeze(conc), np.squeeze(flx))\n"),
("m01_alpha_top_u","src/bldfm/solver.py","        + 1j * u[nz - 1] * Kzinv * Lx[msk]\n","        + 1j * u[0] * Kzinv * Lx[msk]\n"),
]
def run(m):
    name,f,old,new=m
    d=f"/tmp/mut/{name}"
    shutil.rmtree(d,ignore_errors=True); os.makedirs(d)
    subprocess.run(f"cd /repo && git archive HEAD | tar -x -C {d}",shell=True,check=True)
    p=os.path.join(d,f); s=open(p).read()
    if s.count(old)!=1: return name,"PATCH-FAIL count=%d"%s.count(old)
    s=s.replace(old,new)
    if name=="m12_out_buffer": s=s.replace("logger = get_logger(__name__.split","_OUT = {}\nlogger = get_logger(__name__.split",1)
    open(p,"w").write(s)
    env=dict(os.environ,PYTHONPATH=d+"/src")
    r=subprocess.run(["/venv/bin/python","-m","pytest","-q","-p","no:cacheprovider","--timeout=900"],cwd=d,env=env,capture_output=True,text=True)
    import re
    tail=re.findall(r"\d+ (?:passed|failed)[^\n]*",r.stdout)[-1:]
    failed=[l[:90] for l in r.stdout.splitlines() if l.startswith("FAILED")][:2]
    shutil.rmtree(d,ignore_errors=True)
    return name,"rc=%d %s | %s"%(r.returncode,(tail[0] if tail else ""),";".join(failed))
with cf.ThreadPoolExecutor(8) as ex:
    for name,res in ex.map(run,M):
        print(name,"=>",res,flush=True)
