import numpy as np, itertools, warnings, logging
logging.disable(logging.CRITICAL)
from bldfm.pbl_model import vertical_profiles, psi, phi
from bldfm.ffm_kormann_meixner import _psiM,_phiC,_phiM
from scipy.integrate import quad
kap=0.4
bad={}
cnt=0
for clo in ("MOST","MOSTM","CONSTANT","OAAHOC"):
  for zm in (1.5,5.,10.,50.):
    for n in (1,2,3,8,33):
      for (um,vm) in ((3.,0.),(0.,-2.),(1.,1.),(-4.,0.5)):
        for ustar in (0.1,0.4,0.9):
          for mol in (-5.,-100.,-1e4,1e9,1e4,100.,10.):
            cnt+=1
            with warnings.catch_warnings():
                warnings.simplefilter("ignore")
                try:
                    kw=dict(tke=0.8) if clo=="OAAHOC" else {}
                    z,(u,v,Kx,Ky,Kz)=vertical_profiles(n,zm,(um,vm),ustar=ustar,mol=mol,closure=clo,**kw)
                except Exception as e:
                    bad.setdefault("EXC "+type(e).__name__+str(e)[:40],[]).append((clo,zm,n,um,vm,ustar,mol)); continue
            z0=z[0]
            if not (z0<zm): bad.setdefault("z0>=zm",[]).append((clo,zm,n,um,vm,ustar,mol,z0)); continue
            if not np.all(np.isfinite(z)): bad.setdefault("z nan",[]).append((clo,zm,n,um,vm,ustar,mol,z0)); continue
            if not np.all(np.diff(z)>0): bad.setdefault("z not incr",[]).append((clo,zm,n,ustar,mol,z0))
            if len(z)<=n or abs(z[n]-zm)>1e-9*zm: bad.setdefault("z[n]!=zm",[]).append((clo,zm,n,ustar,mol,z0,len(z)))
            if z[-1]<2*zm*(1-1e-12): bad.setdefault("top<2zm",[]).append((clo,zm,n,ustar,mol,z[-1]))
            if len(z)>n and (abs(u[n]-um)>1e-9*np.hypot(um,vm) or abs(v[n]-vm)>1e-9*np.hypot(um,vm)): bad.setdefault("wind at zm",[]).append((clo,zm,n,um,vm,ustar,mol,u[n],v[n],z0))
            if not (np.all(Kz>0) and np.all(Kx>=0) and np.all(Ky>=0)): bad.setdefault("K nonpos",[]).append((clo,zm,n,um,vm,ustar,mol))
            # roundtrip z0 -> ustar
            if clo!="OAAHOC":
                with warnings.catch_warnings():
                    warnings.simplefilter("ignore")
                    z2,p2=vertical_profiles(n,zm,(um,vm),z0=float(z0),mol=mol,closure=clo)
                if len(z2)!=len(z) or not np.allclose(z2,z,rtol=1e-10) or not all(np.allclose(a,b,rtol=1e-9,atol=1e-12) for a,b in zip(p2,(u,v,Kx,Ky,Kz))):
                    bad.setdefault("roundtrip",[]).append((clo,zm,n,um,vm,ustar,mol,z0))
print("cases",cnt)
for k,v in bad.items(): print(k,len(v),v[:4])
# psi/phi
xs=np.concatenate([-np.logspace(-8,1,40),np.logspace(-8,1,40),[0.0]])
print("psi vs km", np.max(np.abs(psi(xs)-_psiM(xs*10.,np.full_like(xs,10.)))), "phi vs phiC", np.max(np.abs(phi(xs)-_phiC(xs*10.,np.full_like(xs,10.)))))
print("psi(0)",psi(0.0),psi(1e-12),psi(-1e-12),"phi",phi(0.),phi(1e-12),phi(-1e-12))
for x in (-3.,-0.5,-1e-3,1e-3,0.7,4.):
    I=quad(lambda s:(_phiM(np.array([s]),np.array([1.0]))[0]-1)/s,0,x)[0]
    print(x,psi(x),I)
