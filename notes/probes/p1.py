import numpy as np, warnings, logging
from bldfm.solver import steady_state_transport_solver as S
from bldfm.pbl_model import vertical_profiles
z,prof = vertical_profiles(8, 10.0, (3.0,1.0), ustar=0.4, mol=-50.)
rng=np.random.default_rng(0)
q0=rng.random((6,8))
def run(levels, **kw):
    return S(q0,z,prof,(80.,60.),levels,modes=(8,6),halo=0.0,precision='double',**kw)
# C10
for lv in ([2,5,8],[8,2,5],[5,5],[14,0], np.array([8,2]), (3,1)):
    try:
        g,c,f = run(lv)
        Z=g[2]
        ok=[]
        for k,l in enumerate(lv):
            g1,c1,f1=run(int(l))
            ok.append((np.allclose(c[k],c1,rtol=1e-12,atol=1e-14), np.allclose(f[k],f1,rtol=1e-12,atol=1e-14), float(Z[k].flat[0])==z[l]))
        print("levels",lv,ok)
    except Exception as e:
        print("levels",lv,"EXC",type(e).__name__,e)
# analytic multi-level
zc=np.linspace(0.1,20,15); pc=tuple(np.full(15,v) for v in (3.,1.,2.,1.5,1.0))
for lv in ([2,5],[5,2],[1,2,3]):
    try:
        g,c,f=S(q0,zc,pc,(80.,60.),lv,modes=(8,6),halo=0.0,precision='double',analytic=True)
        ok=[]
        for k,l in enumerate(lv):
            g1,c1,f1=S(q0,zc,pc,(80.,60.),l,modes=(8,6),halo=0.0,precision='double',analytic=True)
            ok.append((np.allclose(c[k],c1),np.allclose(f[k],f1)))
        print("analytic",lv,ok)
    except Exception as e:
        print("analytic",lv,"EXC",type(e).__name__,e)
