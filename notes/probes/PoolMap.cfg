CONSTANTS N = 4
 W = 2
SPECIFICATION Spec
INVARIANT FifoDispatch
