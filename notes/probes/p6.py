import numpy as np, warnings
from bldfm.ffm_kormann_meixner import estimateFootprint, estimateZ0
args=dict(zm=10.0,z0=0.1,ws=3.0,ustar=0.4,mo_len=-50.0,sigma_v=0.8,grid_domain=[-100,100,-100,100],grid_res=10.0,mxy=[0,0])
gx,gy,f=estimateFootprint(**args)
for name,ch in (("zm int",dict(zm=10)),("mo_len int",dict(mo_len=-50)),("zm np.int64",dict(zm=np.int64(10))),("ws int",dict(ws=3)),("ustar int?",dict(ustar=1, ws=3.0)),("z0 int",dict(z0=1,zm=10.0)),("sigma int",dict(sigma_v=1)),("all stable int",dict(zm=10,mo_len=50))):
    a=dict(args); a.update(ch)
    b=dict(a); 
    for k in ("zm","z0","ws","ustar","mo_len","sigma_v"): b[k]=float(b[k])
    with warnings.catch_warnings():
        warnings.simplefilter("ignore")
        try:
            f1=estimateFootprint(**a)[2]; f2=estimateFootprint(**b)[2]
            print(name, "maxrel", np.max(np.abs(f1-f2))/np.max(np.abs(f2)))
        except Exception as e: print(name,"EXC",type(e).__name__,e)
print("sum",f.sum(), "min",f.min())
# symmetric about wind axis: wd None: y -> -y
print("sym", np.max(np.abs(f-f[::-1,:])))
# rotation by 90
f0=estimateFootprint(**args,wd=0.)[2]; f90=estimateFootprint(**args,wd=90.)[2];f180=estimateFootprint(**args,wd=180.)[2];f270=estimateFootprint(**args,wd=270.)[2]
fn=estimateFootprint(**args)[2]
print("wd=90 vs None", np.max(np.abs(f90-fn))/fn.max())
print("rot 0 vs 90", np.max(np.abs(np.rot90(f90,1)-f0))/fn.max(), np.max(np.abs(np.rot90(f90,-1)-f0))/fn.max())
print("rot 180", np.max(np.abs(np.rot90(f90,2)-f270))/fn.max())
# estimateZ0
zm=np.full(5,10.); ws=np.array([3.,4,5,3,2]); wd=np.array([10.,100,200,300,355]); us=np.array([.3,.4,.5,.3,.2]); L=np.array([-50.,100,-200,1e9,50])
print(estimateZ0(zm,ws,wd,us,L,half_wd_win=0))
print(estimateZ0(zm,ws,wd,us,L))
print(estimateZ0(zm,ws,(wd+37)%360,us,L))
print(estimateZ0(np.full(5,10),ws,wd,us,L,half_wd_win=0))
