import numpy as np, itertools
from bldfm.solver import steady_state_transport_solver as S
from bldfm.pbl_model import vertical_profiles
z,prof = vertical_profiles(6, 10.0, (3.0,1.0), ustar=0.4, mol=-50.)
rng=np.random.default_rng(0)
nx,ny=8,6; dom=(80.,90.)
dx,dy=dom[0]/nx,dom[1]/ny
q0=rng.random((ny,nx))
for halo in (0.0,None,20.,30.,13.0,45.,7.):
  for modes in ((8,6),(64,64),(4,4)):
    worst=0
    for i,j in itertools.product(range(nx),range(ny)):
        xm,ym=i*dx,j*dy
        g,c,f=S(q0,z,prof,dom,6,modes=modes,halo=halo,precision='double',footprint=True,meas_pt=(xm,ym))
        g2,c2,f2=S(q0,z,prof,dom,6,modes=modes,halo=halo,precision='double',footprint=False)
        e1=abs(np.sum(q0*f)-f2[j,i]); e2=abs(np.sum(q0*c)-c2[j,i])
        worst=max(worst,e1,e2)
    print(halo,modes,"worst",worst)
