import numpy as np, itertools
from bldfm.solver import steady_state_transport_solver as S
from bldfm.pbl_model import vertical_profiles
import logging
z,prof0 = vertical_profiles(6, 10.0, (3.0,1.0), ustar=0.4, mol=-50.)
u,v,K,_,_=prof0
prof=(u,v,1.3*K,0.6*K,K)
rng=np.random.default_rng(0)
nx,ny=8,6; dom=(80.,90.); dx,dy=10.,15.
q0=rng.standard_normal((ny,nx))
lv=[0,3,6,len(z)-1]
def run(q,dom=dom,prof=prof,z=z,**kw):
    kw.setdefault("halo",0.0); kw.setdefault("precision","double"); kw.setdefault("modes",(q.shape[1],q.shape[0]))
    return S(q,z,prof,dom,kw.pop("levels",lv),**kw)
# C03 conservation
g,c,f=run(q0,srf_bg_conc=2.5)
print("flux mean", [float(f[k].mean()-q0.mean()) for k in range(len(lv))])
R=np.concatenate([[0],np.cumsum(np.diff(z)*(0.5/prof[4][:-1]+0.5/prof[4][1:]))])
print("conc mean", [float(c[k].mean()-(2.5-q0.mean()*R[l])) for k,l in enumerate(lv)])
g,c,f=run(q0,footprint=True,meas_pt=(20.,30.))
print("fp sums",f.sum(axis=(1,2)))
# halo equivalence
for halo in (20.,30.,13.,45.,None):
    h= max(dom) if halo is None else halo
    px,py=int(h/dx),int(h/dy)
    qp=np.pad(q0,((py,py),(px,px)))
    for fp in (False,True):
        for modes in ((8,6),(4,4),(64,64)):
            a=run(q0,halo=halo,footprint=fp,meas_pt=(20.,30.) if fp else (0.,0.),modes=modes)
            b=run(qp,dom=(dom[0]+2*px*dx,dom[1]+2*py*dy),footprint=fp,meas_pt=(20.+px*dx,30.+py*dy) if fp else (0.,0.),modes=modes)
            e=max(np.abs(a[1]-b[1][:,py:py+ny,px:px+nx]).max(),np.abs(a[2]-b[2][:,py:py+ny,px:px+nx]).max())
            print("halo",halo,fp,modes,e)
