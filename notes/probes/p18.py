import numpy as np, time, os, sys, pickle, logging
import bldfm
from bldfm.solver import steady_state_transport_solver as S
from bldfm.pbl_model import vertical_profiles
from bldfm import config
import bldfm.fft_manager as fm, bldfm.utils as bu, bldfm.solver as bs
import numba, pyfftw
def absstate():
    cl=bs.ivp_solver.__closure__
    comp=None
    for c in cl:
        if isinstance(c.cell_contents,dict): comp=tuple(sorted(c.cell_contents))
    return (config.NUM_THREADS, None if fm._fft_manager is None else fm._fft_manager.num_threads, pyfftw.config.NUM_THREADS, comp, numba.get_num_threads())
print("zygote state",absstate())
def child(hist):
    r,w=os.pipe()
    pid=os.fork()
    if pid==0:
        os.close(r)
        t=time.time()
        z,prof = vertical_profiles(8, 10.0, (3.0,1.0), ustar=0.4, mol=-50.)
        q0=np.random.default_rng(0).random((6,8))
        out=[]
        for op in hist:
            if op[0]=="T": config.NUM_THREADS=op[1]
            elif op[0]=="R": fm.reset_fft_manager()
            else:
                g,c,f=S(q0,z,prof,(80.,60.),8,modes=(8,6),halo=0.0,precision=op[1])
                out.append(f.tobytes())
            out.append(absstate())
        os.write(w,pickle.dumps((out,time.time()-t)))
        os._exit(0)
    os.close(w)
    data=b""
    while True:
        b=os.read(r,1<<20)
        if not b: break
        data+=b
    os.waitpid(pid,0)
    return pickle.loads(data)
for h in ([("S","double")],[("T",4),("S","double"),("S","double")],[("S","double"),("T",2),("S","single"),("R",),("T",1),("S","double")]):
    out,dt=child(h)
    print(h,"time",round(dt,2),[o if isinstance(o,tuple) else hash(o)%10000 for o in out])
