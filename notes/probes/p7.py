import numpy as np
from bldfm.solver import steady_state_transport_solver as S
rng=np.random.default_rng(0)
nx,ny=8,6; dom=(80.,90.)
q0=rng.random((ny,nx))
u,v,Kx,Ky,Kz=2.0,1.0,1.5,0.7,1.1
zt=12.0
def prof(n):
    z=np.linspace(0.5,zt,n+1)
    return z,tuple(np.full(n+1,x) for x in (u,v,Kx,Ky,Kz))
# independent closed form
def closed(n, lvl, halo=0.0):
    z,_=prof(n)
    h=z[lvl]-z[0]
    F=np.fft.fft2(q0)/q0.size
    kx=2*np.pi*np.fft.fftfreq(nx,d=dom[0]/nx); ky=2*np.pi*np.fft.fftfreq(ny,d=dom[1]/ny)
    KX,KY=np.meshgrid(kx,ky)
    lam=np.sqrt((Kx*KX**2+Ky*KY**2+1j*(u*KX+v*KY))/Kz)
    Q=F*np.exp(-lam*h)
    with np.errstate(all='ignore'):
        P=Q/(Kz*lam)
    P[0,0]=0.0 - F[0,0]*h/Kz
    return np.fft.ifft2(P*q0.size).real, np.fft.ifft2(Q*q0.size).real
for n in (8,16,32,64):
    z,p=prof(n)
    lvl=n//2
    g,ca,fa=S(q0,z,p,dom,lvl,modes=(8,6),halo=0.0,precision='double',analytic=True)
    g,cn,fn=S(q0,z,p,dom,lvl,modes=(8,6),halo=0.0,precision='double')
    pc,qc=closed(n,lvl)
    print(n,"analytic-vs-closed",np.abs(ca-pc).max(),np.abs(fa-qc).max(),"num-vs-analytic",np.abs(cn-ca).max(),np.abs(fn-fa).max())
