---- MODULE PoolMap ----
EXTENDS Naturals, Sequences, FiniteSets
CONSTANTS N, W
VARIABLES nxt, running, done
vars == <<nxt, running, done>>
Init == /\ nxt = 1 /\ running = {} /\ done = <<>>
Start == /\ nxt <= N /\ Cardinality(running) < W
         /\ running' = running \cup {nxt} /\ nxt' = nxt + 1 /\ UNCHANGED done
CanStart == nxt <= N /\ Cardinality(running) < W
Finish(t) == /\ ~CanStart /\ t \in running
             /\ running' = running \ {t} /\ done' = Append(done, t) /\ UNCHANGED nxt
Next == Start \/ \E t \in running : Finish(t)
Spec == Init /\ [][Next]_vars
FifoDispatch == \A i \in 1..Len(done) : done[i] < nxt
====
