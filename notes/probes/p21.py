import numpy as np, itertools, copy, logging, warnings, tempfile, os, yaml
logging.disable(logging.CRITICAL)
from bldfm.config_parser import parse_config_dict, load_config
from bldfm.interface import run_bldfm_single
from bldfm.utils import compute_wind_fields, ideal_source
from bldfm.pbl_model import vertical_profiles
from bldfm.solver import steady_state_transport_solver as S
default={"domain":{"nx":8,"ny":6,"xmax":80.,"ymax":90.,"nz":4,"modes":[8,6],"ref_lat":50.,"ref_lon":10.},
 "towers":[{"name":"a","lat":50.0002,"lon":10.0003,"z_m":5.}],
 "met":{"ustar":0.4,"mol":-50.,"wind_speed":3.,"wind_dir":200.},"solver":{}}
axes={
 "closure":[("solver","closure",v) for v in ("MOSTM","CONSTANT","OAAHOC")],
 "precision":[("solver","precision","double")],
 "footprint":[("solver","footprint",True)],
 "analytic":[("solver","analytic",True)],
 "halo":[("domain","halo",20.),("domain","halo",13.)],
 "modes":[("domain","modes",[4,4]),("domain","modes",[64,64])],
 "levels":[("domain","output_levels",[1,3]),("domain","full_output",True)],
 "forcing":[("met","z0",0.1),("met","__del_ustar",0.05)],
 "lists":[("met","wind_dir",[10.,200.,300.]),("met","ustar",[0.3,0.4,0.5]),("met","mol",[-50.,1e9,80.])],
 "ts":[("met","timestamps",["t0","t1","t2"])],
 "towers":[("towers",None,[{"name":"a","lat":50.0002,"lon":10.0003,"z_m":5.},{"name":"b","lat":50.0004,"lon":10.0001,"z_m":8.}])],
 "shape":[("solver","surface_flux_shape","circle"),("solver","surface_flux_shape","point")],
 "srcloc":[("solver","src_loc",[30.,20.])],
}
def apply(d,devs):
    d=copy.deepcopy(d)
    for sec,key,val in devs:
        if sec=="towers": d["towers"]=val
        elif key=="__del_ustar": d["met"].pop("ustar",None); d["met"]["z0"]=val
        else: d[sec][key]=val
    return d
def manual(cfg,tower,i):
    m=cfg.met.get_step(i)
    u,v=compute_wind_fields(m["wind_speed"],m["wind_dir"])
    kw=dict(z0=m["z0"]) if m.get("z0") is not None else dict(ustar=m["ustar"])
    z,prof=vertical_profiles(cfg.domain.nz,tower.z_m,(u,v),mol=m["mol"],closure=cfg.solver.closure,**kw)
    q=ideal_source((cfg.domain.nx,cfg.domain.ny),(cfg.domain.xmax,cfg.domain.ymax),src_loc=cfg.solver.src_loc,shape=cfg.solver.surface_flux_shape)
    lv=cfg.domain.output_levels if cfg.domain.output_levels else (list(range(cfg.domain.nz+1)) if cfg.domain.full_output else cfg.domain.nz)
    return S(q,z,prof,(cfg.domain.xmax,cfg.domain.ymax),lv,modes=cfg.domain.modes,meas_pt=(tower.x,tower.y),footprint=cfg.solver.footprint,analytic=cfg.solver.analytic,halo=cfg.domain.halo,precision=cfg.solver.precision), m
names=list(axes)
count=0; bad=[]
combos=[()]
for a in names: combos+= [(d,) for d in axes[a]]
for a,b in itertools.combinations(names,2): combos+=[(x,y) for x in axes[a] for y in axes[b]]
print(len(combos))
for devs in combos:
    d=apply(default,devs)
    try: cfg=parse_config_dict(d)
    except Exception as e: 
        bad.append(("parse",devs,repr(e))); continue
    for tw in cfg.towers:
        for i in range(cfg.met.n_timesteps):
            count+=1
            with warnings.catch_warnings():
                warnings.simplefilter("ignore")
                try: r=run_bldfm_single(cfg,tw,i); e1=None
                except Exception as e: e1=type(e).__name__
                try: (g,c,f),m=manual(cfg,tw,i); e2=None
                except Exception as e: e2=type(e).__name__
            if e1 or e2:
                if e1!=e2: bad.append(("exc",devs,e1,e2))
                continue
            ok=all(np.array_equal(a_,b_) for a_,b_ in zip(r["grid"],g)) and np.array_equal(r["conc"],c,equal_nan=True) and np.array_equal(r["flx"],f,equal_nan=True) and r["tower_name"]==tw.name and r["timestamp"]==m["timestamp"] and r["params"]==m and r["tower_xy"]==(tw.x,tw.y)
            if not ok: bad.append(("diff",devs,tw.name,i))
print("runs",count,"bad",len(bad)); print(bad[:10])
