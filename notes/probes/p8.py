import numpy as np, time
from scipy.integrate import solve_ivp
from bldfm.solver import steady_state_transport_solver as S

def transfer(z, prof, dom, nx, ny, levels):
    q0=np.zeros((ny,nx)); q0[0,0]=1.0
    g,c,f=S(q0,z,prof,dom,levels,modes=(nx,ny),halo=0.0,precision='double')
    c=np.atleast_3d(c.T).T if c.ndim==2 else c
    f=np.atleast_3d(f.T).T if f.ndim==2 else f
    F0=np.fft.fft2(q0)
    return np.fft.fft2(c,axes=(1,2))/F0, np.fft.fft2(f,axes=(1,2))/F0

def reference(funcs, z0, ztop, zl, KX, KY):
    u,v,Kx,Ky,Kz=funcs
    k=KX.ravel().copy(); l=KY.ravel().copy(); k[0]=1e-3; M=k.size
    def T(z): return -(Kx(z)*k**2+Ky(z)*l**2)-1j*(u(z)*k+v(z)*l)
    lam=np.sqrt(-T(ztop)/Kz(ztop))
    R0=1.0/(Kz(ztop)*lam)
    def rhs(z,y):
        R=y[:M]; 
        t=T(z)
        dR=-1.0/Kz(z)-t*R**2
        dG=-t*R
        return np.concatenate([dR,dG])
    y0=np.concatenate([R0,np.zeros(M,complex)])
    sol=solve_ivp(rhs,(ztop,z0),y0,method='DOP853',rtol=1e-11,atol=1e-14,dense_output=True)
    y_0=sol.sol(z0); 
    out_p=[];out_q=[]
    for zz in zl:
        y=sol.sol(zz)
        q=np.exp(y_0[M:]-y[M:])
        p=y[:M]*q
        out_p.append(p.reshape(KX.shape)); out_q.append(q.reshape(KX.shape))
    return np.array(out_p),np.array(out_q)

kap=0.4
def family(name):
    if name=="loglin":
        us=0.4; z0=0.1
        u=lambda z: 0.8*us/kap*np.log(z/z0+0.0)+0.0*z ; v=lambda z:0.6*us/kap*np.log(z/z0)
        K=lambda z: kap*us*z
        return (u,v,K,K,K)
    if name=="power":
        u=lambda z: 2.0*z**0.25; v=lambda z: -1.0*z**0.25
        Kx=lambda z: 0.3*z**0.8+0.1; Ky=lambda z:0.2*z+0.05; Kz=lambda z:0.15*z**0.9
        return (u,v,Kx,Ky,Kz)
def run(name, z0, ztop, n, dom, nx, ny, grid="uniform"):
    funcs=family(name)
    if grid=="uniform": z=np.linspace(z0,ztop,n+1)
    else:
        s=np.linspace(0,1,n+1); z=z0*(ztop/z0)**s
    prof=tuple(f(z)+0*z for f in funcs)
    lv=[n//2, n]
    Hp,Hq=transfer(z,prof,dom,nx,ny,lv)
    kx=2*np.pi*np.fft.fftfreq(nx,d=dom[0]/nx); ky=2*np.pi*np.fft.fftfreq(ny,d=dom[1]/ny)
    KX,KY=np.meshgrid(kx,ky)
    Rp,Rq=reference(funcs,z0,ztop,z[lv],KX,KY)
    msk=np.ones((ny,nx),bool); msk[0,0]=False
    if nx%2==0: msk[:,nx//2]=False
    if ny%2==0: msk[ny//2,:]=False
    # resolved criterion
    T=lambda i: -(prof[2][i]*KX**2+prof[3][i]*KY**2)-1j*(prof[0][i]*KX+prof[1][i]*KY)
    dz=np.diff(z)
    res=np.max([np.abs(T(i))*dz[i]**2/prof[4][i] for i in range(n)],axis=0)
    growth=np.sum([np.sqrt(-T(i)/prof[4][i]).real*dz[i] for i in range(n)],axis=0)
    return Hp,Hq,Rp,Rq,msk,res,growth
for name in ("loglin","power"):
  for grid in ("uniform","geom"):
    for dom,nx,ny in (((200.,150.),8,6),((2000.,1500.),8,6)):
      prev=None
      for n in (16,64,256):
        t=time.time()
        Hp,Hq,Rp,Rq,msk,res,growth=run(name,0.5,20.,n,dom,nx,ny,grid)
        if n==16: ok=(res<=1)&(growth<=18)&msk
        eq=np.abs(Hq-Rq)[:,ok]/np.abs(Rq[:,ok]).max(axis=0); ep=np.abs(Hp-Rp)[:,ok]/np.abs(Rp[:,ok]).max(axis=0)
        e=max(eq.max(),ep.max())
        print(name,grid,dom,n,"nres",ok.sum(),"err",e, "ratio",None if prev is None else prev/e, "relthick",np.max(np.diff(np.linspace(0,1,n+1))), "t",round(time.time()-t,2))
        prev=e
