import time, numpy as np
t=time.time()
from bldfm.solver import steady_state_transport_solver as S
from bldfm.pbl_model import vertical_profiles
print("import", time.time()-t)
z,prof = vertical_profiles(8, 10.0, (3.0,1.0), ustar=0.4, mol=-50.)
print(z)
q0=np.random.default_rng(0).random((6,8))
t=time.time()
g,c,f = S(q0,z,prof,(80.,60.),8,modes=(8,6),halo=0.0,precision='double')
print("first", time.time()-t)
t=time.time()
for i in range(100):
    g,c,f = S(q0,z,prof,(80.,60.),8,modes=(8,6),halo=0.0,precision='double')
print("per solve", (time.time()-t)/100)
print(f.mean(), q0.mean())
