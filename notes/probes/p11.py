import numpy as np, time, sys, hashlib, logging
t0=time.time()
from bldfm.solver import steady_state_transport_solver as S
from bldfm.pbl_model import vertical_profiles
from bldfm import config
import bldfm.fft_manager as fm
print("import",time.time()-t0)
z,prof = vertical_profiles(8, 10.0, (3.0,1.0), ustar=0.4, mol=-50.)
rng=np.random.default_rng(0)
qs={"a":rng.random((6,8)),"b":rng.random((16,12))}
def solve(name,prec="double",fp=False,halo=0.0):
    q0=qs[name]; ny,nx=q0.shape
    g,c,f=S(q0,z,prof,(10.*nx,10.*ny),[3,8],modes=(nx,ny),halo=halo,precision=prec,footprint=fp,meas_pt=(10.,20.) if fp else (0.,0.))
    return hashlib.sha256(c.tobytes()+f.tobytes()).hexdigest()[:10], c, f
t=time.time(); h0,c0,f0=solve("a"); print("first solve",time.time()-t,h0)
ref={}
for nm in qs:
    for prec in ("double","single"):
        for fp in (False,True):
            for halo in (0.0,None):
                ref[(nm,prec,fp,halo)]=solve(nm,prec,fp,halo)
import itertools
bad=0
for th in (1,2,4,8,3,1):
    config.NUM_THREADS=th
    t=time.time()
    for k in ref:
        h,c,f=solve(*k)
        if h!=ref[k][0]:
            bad+=1
            print("threads",th,k,"differs rel",np.abs(c-ref[k][1]).max()/np.abs(ref[k][1]).max(),np.abs(f-ref[k][2]).max()/np.abs(ref[k][2]).max())
    print("threads",th,"done",time.time()-t, fm._fft_manager.num_threads)
fm.reset_fft_manager()
for k in ref:
    h,c,f=solve(*k)
    if h!=ref[k][0]: print("after reset differs",k)
print("bad",bad)
