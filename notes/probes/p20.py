import numpy as np, warnings
from scipy import special as sp
from scipy.integrate import quad
from bldfm.ffm_kormann_meixner import estimateFootprint
k=0.4
def oracle(zm,z0,ws,ustar,L,sv,x,y):
    if L<0:
        phim=(1-16*zm/L)**-0.25; phic=(1-16*zm/L)**-0.5
        xi=(1-16*zm/L)**0.25
        psim=-2*np.log((1+xi)/2)-np.log((1+xi**2)/2)+2*np.arctan(xi)-np.pi/2
        n=(1-24*zm/L)/(1-16*zm/L)
    else:
        phim=phic=1+5*zm/L; psim=5*zm/L; n=1/(1+5*zm/L)
    m=ustar*phim/(k*ws)
    U=ustar*(np.log(zm/z0)+psim)/(k*zm**m)
    kappa=k*ustar*zm/(phic*zm**n)
    r=2+m-n; mu=(1+m)/r
    xi_=U*zm**r/(r*r*kappa)
    out=np.zeros_like(x)
    up=x>0
    xx=x[up]
    fy=xi_**mu/sp.gamma(mu)*xx**(-1-mu)*np.exp(-xi_/xx)
    ubar=sp.gamma(mu)/sp.gamma(1/r)*(r*r*kappa/U)**(m/r)*U*xx**(m/r)
    sy=sv*xx/ubar
    out[up]=fy*np.exp(-y[up]**2/(2*sy**2))/(np.sqrt(2*np.pi)*sy)
    return out,(mu,xi_)
worst=0
for zm in (2.,10.):
  for z0 in (0.01,0.1):
    for ws,us in ((3.,0.3),(6.,0.6)):
      for L in (-20.,-500.,1e9,200.,30.):
        for sv in (0.5,1.2):
          for res in (20.,10.,5.):
            gx,gy,f=estimateFootprint(zm,z0,ws,us,L,sv,[-50,600,-300,300],res,[10.,-5.])
            o,(mu,xi_)=oracle(zm,z0,ws,us,L,sv,gx-10.,gy+5.)
            worst=max(worst,np.abs(f-o*res**2).max()/np.abs(o*res**2).max())
          mass=sp.gammaincc(mu,xi_/590.)
          print(zm,z0,ws,L,sv,"sum@5",f.sum(),"gammaincc",mass)
print("worst cell rel",worst)
