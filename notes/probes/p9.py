import numpy as np, time, logging
from bldfm.config_parser import parse_config_dict
from bldfm.interface import run_bldfm_single
from bldfm.plotting._geo import xy_to_latlon
def mk(wd, nx=32, ny=32, xmax=400., ymax=400., closure="MOST", mol=-100., ws=4., zm=5., tx=None,ty=None, nz=8):
    tx = xmax/2 if tx is None else tx; ty = ymax/2 if ty is None else ty
    lat,lon = xy_to_latlon(tx,ty,50.,10.)
    return parse_config_dict({"domain":{"nx":nx,"ny":ny,"xmax":xmax,"ymax":ymax,"nz":nz,"modes":[nx,ny],"ref_lat":50.,"ref_lon":10.},
      "towers":[{"name":"a","lat":float(lat),"lon":float(lon),"z_m":zm}],"met":{"ustar":0.4,"mol":mol,"wind_speed":ws,"wind_dir":wd},"solver":{"closure":closure,"footprint":True,"precision":"double"}})
def bearing_err(c):
    r=run_bldfm_single(c,c.towers[0])
    X,Y,Z=r["grid"]; f=r["flx"]
    tx,ty=r["tower_xy"]
    cx=(f*X).sum()/f.sum()-tx; cy=(f*Y).sum()/f.sum()-ty
    b=np.degrees(np.arctan2(cx,cy))%360
    return b, np.hypot(cx,cy), f.sum(), f.min()/f.max()
t=time.time()
for kw in (dict(),dict(closure="MOSTM"),dict(mol=50.),dict(nx=32,ny=48,xmax=400.,ymax=600.),dict(closure="CONSTANT"),dict(nx=16,ny=16),dict(xmax=200,ymax=200)):
    worst=0
    for wd in range(0,360,5):
        c=mk(float(wd),**kw)
        b,d,s,mn=bearing_err(c)
        e=abs((b-wd+180)%360-180)
        worst=max(worst,e)
    print(kw,"worst bearing err",worst,"dist",d,"sum",s,"minrel",mn)
print(time.time()-t)
