import numpy as np, time, logging, os
from bldfm.config_parser import parse_config_dict
from bldfm.interface import run_bldfm_single, run_bldfm_parallel, run_bldfm_multitower
from bldfm import config as rc
def mk(nt,ns,cache=False):
    return parse_config_dict({"domain":{"nx":8,"ny":6,"xmax":80.,"ymax":60.,"nz":4,"modes":[8,6],"ref_lat":50.,"ref_lon":10.,"halo":20.0},
      "towers":[{"name":"t%d"%i,"lat":50.0001+0.0001*i,"lon":10.0002+0.0002*i,"z_m":5.+i} for i in range(nt)],
      "met":{"ustar":[0.3+0.1*i for i in range(ns)],"wind_dir":[10.+50*i for i in range(ns)],"mol":-50.},
      "solver":{"footprint":True,"precision":"double"},"parallel":{"use_cache":cache}})
c=mk(2,2)
ref={t.name:[run_bldfm_single(c,t,i) for i in range(2)] for t in c.towers}
for th in (1,4):
    rc.NUM_THREADS=th
    run_bldfm_single(c,c.towers[0],0)
    for strat in ("towers","time","both"):
        for w in (1,2,5):
            t=time.time()
            r=run_bldfm_parallel(c,max_workers=w,parallel_over=strat)
            ok=list(r.keys())==[t_.name for t_ in c.towers]
            for nm in r:
                for i,x in enumerate(r[nm]):
                    ok&=np.array_equal(x["flx"],ref[nm][i]["flx"]) and np.array_equal(x["conc"],ref[nm][i]["conc"]) and x["timestamp"]==i and x["tower_name"]==nm
            print(th,strat,w,ok,round(time.time()-t,2))
