import numpy as np, itertools, tempfile, os
from bldfm.config_parser import MetConfig, parse_config_dict
# C16
def cfg(met):
    return parse_config_dict({"domain":{"nx":8,"ny":8,"xmax":80.,"ymax":80.,"nz":4,"modes":[8,8]},"towers":[{"name":"a","lat":0,"lon":0,"z_m":5.}],"met":met})
for pat in itertools.product([0,1],repeat=4):
    met={}
    L=3
    names=("ustar","mol","wind_speed","wind_dir")
    base=dict(ustar=0.4,mol=-50.,wind_speed=3.,wind_dir=10.)
    for n,p in zip(names,pat):
        met[n]=[base[n]+0.01*i for i in range(L)] if p else base[n]
    try:
        c=cfg(met); n=c.met.n_timesteps
        exp=L if any(pat) else 1
        print(pat,"n=",n,"exp",exp,"OK" if n==exp else "MISMATCH")
    except Exception as e:
        print(pat,"EXC",e)
# timestamps wrong length with scalars
for ts in (["a"],["a","b","c"]):
    try:
        c=cfg(dict(ustar=0.4,timestamps=ts)); print("scalar ts",ts,"accepted n=",c.met.n_timesteps)
    except Exception as e: print("scalar ts",ts,"rejected",e)
try:
    c=cfg(dict(wind_speed=3.0)); print("no ustar/z0 accepted")
except Exception as e: print("no ustar/z0 rejected")
try:
    c=cfg(dict(ustar=[0.3,0.4],mol=[1.,2.,3.])); print("mismatch accepted")
except Exception as e: print("mismatch rejected")
try:
    c=cfg(dict(z0=0.1,wind_dir=[1.,2.,3.],timestamps=["a","b"])); print("ts mismatch accepted", c.met.n_timesteps)
except Exception as e: print("ts mismatch rejected")
