import numpy as np, time, logging
logging.disable(logging.CRITICAL)
exec(open('p8.py').read().split("kap=0.4")[0])
from bldfm.pbl_model import vertical_profiles
kap=0.4
def psi(x):
    x=np.asarray(x,float)
    xi=(1-16*np.minimum(x,0))**0.25
    return np.where(x>0,5*x,-2*np.log((1+xi)/2)-np.log((1+xi**2)/2)+2*np.arctan(xi)-np.pi/2)
def phi(x):
    x=np.asarray(x,float)
    return np.where(x>0,1+5*x,(1-16*np.minimum(x,0))**-0.5)
def most(zm,um,vm,ustar,L,clo="MOST"):
    absum=np.hypot(um,vm)
    z0=zm*np.exp(-kap*absum/ustar+psi(zm/L))
    sp=lambda z: ustar/kap*(np.log(z/z0)+psi(z/L))
    u=lambda z: um/absum*sp(z); v=lambda z: vm/absum*sp(z)
    K=lambda z: kap*ustar*z/phi(z/L)
    if clo=="MOSTM":
        Kx=lambda z: K(z)*vm**2/absum**2; Ky=lambda z: K(z)*um**2/absum**2
        return (u,v,Kx,Ky,K),z0
    return (u,v,K,K,K),z0
for clo in ("MOST","MOSTM"):
 for L in (-50.,1e9,80.):
  for dom,nx,ny in (((200.,150.),8,6),((2000.,1500.),8,6),((400.,300.),16,12)):
    zm=10.;um,vm=3.,1.;us=0.4
    funcs,z0=most(zm,um,vm,us,L,clo)
    prev=None
    for n in (8,32,128):
        z,prof=vertical_profiles(n,zm,(um,vm),ustar=us,mol=L,closure=clo)
        lv=[n,len(z)-1]
        Hp,Hq=transfer(z,prof,dom,nx,ny,lv)
        kx=2*np.pi*np.fft.fftfreq(nx,d=dom[0]/nx); ky=2*np.pi*np.fft.fftfreq(ny,d=dom[1]/ny)
        KX,KY=np.meshgrid(kx,ky)
        Rp,Rq=reference(funcs,z[0],z[-1],z[lv],KX,KY)
        msk=np.ones((ny,nx),bool); msk[0,0]=False; msk[:,nx//2]=False; msk[ny//2,:]=False
        dz=np.diff(z)
        T=lambda i: -(prof[2][i]*KX**2+prof[3][i]*KY**2)-1j*(prof[0][i]*KX+prof[1][i]*KY)
        res=np.max([np.abs(T(i))*dz[i]**2/prof[4][i] for i in range(len(z)-1)],axis=0)
        growth=np.sum([np.sqrt(-T(i)/prof[4][i]).real*dz[i] for i in range(len(z)-1)],axis=0)
        if n==8: ok=(res<=1)&(growth<=18)&msk
        eq=np.abs(Hq-Rq)[:,ok]/np.abs(Rq[:,ok]).max(axis=0); ep=np.abs(Hp-Rp)[:,ok]/np.abs(Rp[:,ok]).max(axis=0)
        e=max(eq.max(),ep.max()) if ok.sum() else float('nan')
        rel=np.max(dz)/(z[-1]-z[0])
        print(clo,L,dom,nx,n,"nres",int(ok.sum()),"err",round(float(e),5),"err/rel",round(float(e/rel),2),"ratio",None if prev is None else round(prev/e,2))
        prev=e
