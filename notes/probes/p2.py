import numpy as np, itertools
from bldfm.solver import steady_state_transport_solver as S
from bldfm.pbl_model import vertical_profiles
z,prof = vertical_profiles(4, 10.0, (3.0,1.0), ustar=0.4, mol=-50.)
rng=np.random.default_rng(0)
res={}
for nx,ny in itertools.product(range(3,8),range(3,8)):
  for mx,my in itertools.product((2,4,6,8,10),(2,4,6,8,10)):
    for halo in (0.0,None,13.0):
      for fp in (False,True):
        q0=rng.random((ny,nx))
        try:
            g,c,f=S(q0,z,prof,(10.*nx,10.*ny),4,modes=(mx,my),halo=halo,precision='double',footprint=fp, meas_pt=(10.,10.) if fp else (0.,0.))
            ok = (c.shape==(ny,nx) and f.shape==(ny,nx) and g[0].shape==(ny,nx))
            r = "ok" if ok else "BADSHAPE%s"%(f.shape,)
        except Exception as e:
            r="EXC:"+type(e).__name__
        res.setdefault((r,fp),[]).append((nx,ny,mx,my,halo))
for k,v in res.items(): print(k,len(v),v[:6])
