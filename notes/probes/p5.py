import numpy as np, itertools, tempfile, os, warnings
from bldfm.config_parser import parse_config_dict
from bldfm.io import save_footprints_to_netcdf, load_footprints_from_netcdf
def cfg(nt,met):
    return parse_config_dict({"domain":{"nx":4,"ny":3,"xmax":40.,"ymax":30.,"nz":4,"modes":[4,4],"ref_lat":50.,"ref_lon":10.},
      "towers":[{"name":"t%d"%i,"lat":50.+0.001*i,"lon":10.+0.002*i,"z_m":5.+i} for i in range(nt)],"met":met})
rng=np.random.default_rng(1)
def mk(c, nsteps, threed):
    X,Y=np.meshgrid(np.arange(4)*10.,np.arange(3)*10.)
    res={}
    for t in c.towers:
        lst=[]
        for s in range(nsteps):
            if threed:
                Z,YY,XX=np.meshgrid(np.array([1.,2.]),np.arange(3)*10.,np.arange(4)*10.,indexing='ij')
                grid=(XX,YY,Z); shp=(2,3,4)
            else:
                grid=(X,Y,np.full((3,4),5.)); shp=(3,4)
            lst.append(dict(grid=grid,conc=rng.standard_normal(shp)*1e-300,flx=rng.standard_normal(shp)*1e30,tower_name=t.name,tower_xy=(t.x,t.y),timestamp=c.met.get_step(s)["timestamp"],params=c.met.get_step(s)))
        res[t.name]=lst
    return res
d=tempfile.mkdtemp()
for name,met,ns in (("ustar",dict(ustar=[0.3,0.4],wind_dir=[1.,2.]),2),("z0",dict(z0=0.1,wind_speed=[1.,2.,3.]),3),("ts",dict(ustar=[0.3,0.4],timestamps=["2024-01-01T00:00","2024-01-01T00:30"]),2)):
  for nt in (1,3):
    for threed in (False,True):
        c=cfg(nt,met); r=mk(c,ns,threed)
        try:
            p=os.path.join(d,"a.nc")
            save_footprints_to_netcdf(r,c,p)
            ds=load_footprints_from_netcdf(p)
            ok=True
            for ti,t in enumerate(c.towers):
                for s in range(ns):
                    a=ds["footprint"].sel(tower=t.name).isel(time=s).values
                    ok&=np.array_equal(a,r[t.name][s]["flx"])
                    a=ds["concentration"].sel(tower=t.name).isel(time=s).values
                    ok&=np.array_equal(a,r[t.name][s]["conc"])
            print(name,nt,threed,"roundtrip",ok, ds.time.values, ds.tower.values, ds.tower_z.values, ds.ustar.values)
            ds.close()
        except Exception as e:
            print(name,nt,threed,"EXC",type(e).__name__,e)
