import numpy as np
exec(open('p8.py').read().split("for name in (\"loglin\"")[0])
def family(name):
    c=lambda val: (lambda z: val+0*z)
    return (c(2.),c(1.),c(1.5),c(0.7),c(1.1))
Hp,Hq,Rp,Rq,msk,res,growth=run("const",0.5,20.,64,(200.,150.),8,6)
print(np.abs(Hq-Rq)[:,msk].max(), np.abs(Hp-Rp)[:,msk].max())
kx=2*np.pi*np.fft.fftfreq(8,d=25.); ky=2*np.pi*np.fft.fftfreq(6,d=25.)
KX,KY=np.meshgrid(kx,ky)
lam=np.sqrt((1.5*KX**2+0.7*KY**2+1j*(2*KX+KY))/1.1)
z=np.linspace(.5,20,65)
ex=np.exp(-lam*(z[32]-z[0]))
print("ref vs closed",np.abs(Rq[0]-ex)[msk].max(),"solver vs closed",np.abs(Hq[0]-ex)[msk].max())
print(Rq[0][0,1],ex[0,1],Hq[0][0,1])
