import subprocess, os, sys, shutil, json, concurrent.futures as cf
M=[
("m01_Ti_KxforKy","src/bldfm/solver.py","Ti = -(Kx[i] * Lx**2 + Ky[i] * Ly**2)","Ti = -(Kx[i] * Lx**2 + Kx[i] * Ly**2)"),
("m01_dz_index","src/bldfm/solver.py","        dzi = dz[i]\n","        dzi = dz[max(i - 1, 0)]\n"),
("m01_top_Kz","src/bldfm/solver.py","alpha = -(tfftq2 - Kz[nz - 1] * eigval * tfftp2) / (\n            tfftq1 - Kz[nz - 1] * eigval * tfftp1","alpha = -(tfftq2 - Kz[nz - 2] * eigval * tfftp2) / (\n            tfftq1 - Kz[nz - 2] * eigval * tfftp1"),
("m02_shift_xm_for_ym","src/bldfm/solver.py","shift = np.exp(1j * (Lx * (xm + halo) + Ly * (ym + halo)))","shift = np.exp(1j * (Lx * (xm + halo) + Ly * (xm + halo)))"),
("m02_norm_nxe2","src/bldfm/solver.py","tfftq0 = np.ones((nly, nlx), dtype=np.complex128) / nxe / nye","tfftq0 = np.ones((nly, nlx), dtype=np.complex128) / nxe / nxe"),
("m03_rectangle","src/bldfm/solver.py","dz[i] * (0.5 / Kz[i] + 0.5 / Kz[i + 1])","dz[i] * (1.0 / Kz[i])"),
("m03_crop_py","src/bldfm/solver.py","    flx = q[:, py : nye - py, px : nxe - px]","    flx = q[:, py : nye - py, px : nxe - px] if py == 0 else q[:, py - 1 : nye - py - 1, px : nxe - px]"),
("m04_bg_in_flux","src/bldfm/solver.py","tfftq[:, 0, 0] = tfftq0[0, 0]  # conservation by design","tfftq[:, 0, 0] = tfftq0[0, 0] + p000  # conservation by design"),
("m05_c_coeff","src/bldfm/solver.py","c = Ti * dzi - 1.0 / 6.0 * Kzinv * Ti**2 * dzi**3","c = Ti * dzi + 1.0 / 6.0 * Kzinv * Ti**2 * dzi**3"),
("m06_recentre_ymx","src/bldfm/solver.py","Ly * (ym - ymx / 2)","Ly * (ym - xmx / 2)"),
("m07_eig_KxforKy","src/bldfm/solver.py","+ KyKzinv * Ly[msk] ** 2","+ KxKzinv * Ly[msk] ** 2"),
("m07_ly_dx","src/bldfm/solver.py","ly = 2.0 * np.pi / dy / nye * ily","ly = 2.0 * np.pi / dx / nye * ily"),
("m08_sincos","src/bldfm/utils.py","    u = -u_rot * np.sin(wind_dir)\n    v = -u_rot * np.cos(wind_dir)","    u = -u_rot * np.cos(wind_dir)\n    v = -u_rot * np.sin(wind_dir)"),
("m08_usign","src/bldfm/utils.py","    u = -u_rot * np.sin(wind_dir)","    u = u_rot * np.sin(wind_dir)"),
("m09_psi_stable","src/bldfm/pbl_model.py","        5.0 * x,\n","        4.7 * x,\n"),
("m09_dzeta","src/bldfm/pbl_model.py","    dzeta = zm / n\n","    dzeta = zm / (n + 1)\n"),
("m09_v_um","src/bldfm/pbl_model.py","        u = um / absum * absu\n        v = vm / absum * absu\n\n        K = kap * ustar * z / phi(z / mol) / prsc\n        Kx = Ky = Kz = K","        u = um / absum * absu\n        v = um / absum * absu\n\n        K = kap * ustar * z / phi(z / mol) / prsc\n        Kx = Ky = Kz = K"),
("m12_lx_cache","src/bldfm/solver.py","    Lx, Ly = np.meshgrid(lx, ly)\n","    Lx, Ly = _WN.setdefault((nlx, nly, nxe, nye), np.meshgrid(lx, ly))\n"),
("m13_xy_swap","src/bldfm/interface.py","meas_pt=(tower.x, tower.y),","meas_pt=(tower.y, tower.x),"),
("m13_metindex","src/bldfm/interface.py","met_step = config.met.get_step(met_index)","met_step = config.met.get_step(0)"),
("m13_halo_drop","src/bldfm/interface.py","        halo=dom.halo,\n","        halo=None,\n"),
("m14_both_idx","src/bldfm/interface.py","            idx += n_time\n","            idx += max(n_time - 1, 1)\n"),
("m16_get0","src/bldfm/config_parser.py","return val[idx] if isinstance(val, list) else val","return val[min(idx, 0)] if isinstance(val, list) else val"),
("m17_cos_pt","src/bldfm/plotting/_geo.py","lons = ref_lon + np.degrees(x / (R * np.cos(np.radians(ref_lat))))","lons = ref_lon + np.degrees(x / (R * np.cos(np.radians(lats))))"),
("m18_idx","src/bldfm/io.py","            conc_data[t, ti] = r[\"conc\"]","            conc_data[t, ti] = r[\"flx\"]"),
("m18_f32","src/bldfm/io.py","        \"footprint\": {\"zlib\": True, \"complevel\": 4},","        \"footprint\": {\"zlib\": True, \"complevel\": 4, \"dtype\": \"float32\"},"),
("m19_exp","src/bldfm/ffm_kormann_meixner.py","* x[sflag] ** (mr - 2 - mu)","* x[sflag] ** (mr - 2 - mu * 1.01)"),
("m19_sym","src/bldfm/ffm_kormann_meixner.py","new_theta = theta + np.deg2rad(wd) - np.pi * 0.5","new_theta = theta - np.deg2rad(wd) + np.pi * 0.5"),
("m20_inclusive","src/bldfm/utils.py","    M_shifted[1:] = M_cum[:-1]\n","    M_shifted[:] = M_cum\n"),
("m20_area","src/bldfm/plotting/footprint.py","    area = (k + 1) * cell_area","    area = k * cell_area"),
("m15_key_measpt","src/bldfm/cache.py","        h.update(np.asarray(meas_pt).tobytes())\n","        h.update(np.asarray(meas_pt[0]).tobytes())\n"),
]
def run(m):
    name,f,old,new=m
    d=f"/tmp/mut/{name}"
    shutil.rmtree(d,ignore_errors=True); os.makedirs(d)
    subprocess.run(f"cd /repo && git archive HEAD | tar -x -C {d}",shell=True,check=True)
    p=os.path.join(d,f); s=open(p).read()
    if s.count(old)!=1: return name,"PATCH-FAIL count=%d"%s.count(old)
    s=s.replace(old,new)
    if name=="m12_lx_cache": s=s.replace("logger = get_logger(__name__.split","_WN = {}\nlogger = get_logger(__name__.split",1)
    open(p,"w").write(s)
    env=dict(os.environ,PYTHONPATH=d+"/src")
    r=subprocess.run(["/venv/bin/python","-m","pytest","-q","-p","no:cacheprovider","--timeout=900"],cwd=d,env=env,capture_output=True,text=True)
    import re
    tail=re.findall(r"\d+ (?:passed|failed)[^\n]*",r.stdout)[-1:]
    failed=[l[:90] for l in r.stdout.splitlines() if l.startswith("FAILED")][:2]
    shutil.rmtree(d,ignore_errors=True)
    return name,"rc=%d %s | %s"%(r.returncode,(tail[0] if tail else ""),";".join(failed))
with cf.ThreadPoolExecutor(8) as ex:
    for name,res in ex.map(run,M):
        print(name,"=>",res,flush=True)
