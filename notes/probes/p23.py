import io, os, numpy as np, zipfile
log=[]
real_open=io.open
class Proxy:
    def __init__(s,f,name): s.f=f; s.name=name
    def write(s,b):
        log.append(("write",s.f.tell(),len(bytes(b)))); return s.f.write(b)
    def seek(s,*a):
        r=s.f.seek(*a); log.append(("seek",r)); return r
    def __getattr__(s,k): return getattr(s.f,k)
    def __enter__(s): return s
    def __exit__(s,*a): return s.f.__exit__(*a)
def popen(file,mode="r",*a,**k):
    f=real_open(file,mode,*a,**k)
    if "w" in mode and str(file).endswith(".npz"): return Proxy(f,file)
    return f
io.open=popen
np.savez("t.npz",X=np.zeros((6,8)),Y=np.ones((6,8)),Z=np.ones((6,8)),conc=np.arange(48.).reshape(6,8),flx=np.arange(48.).reshape(6,8))
io.open=real_open
print(len(log), os.path.getsize("t.npz"))
print(log[:30])
d=np.load("t.npz"); print(d["flx"].sum())
