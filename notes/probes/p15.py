import numpy as np
from bldfm.utils import get_source_area
from bldfm.plotting.footprint import extract_percentile_contour
f=np.array([[1.,2.,0.],[4.,0.,8.]]); g=np.array([[3,1,2],[3,0,5]])
print(get_source_area(f,g), get_source_area(f,g.astype(float)))
print(get_source_area(f*0.25,g), get_source_area(f*0.25,g.astype(float)))
X,Y=np.meshgrid(np.arange(3)*2.,np.arange(2)*3.)
for p in (0.1,0.5,8/15,0.9,1.0):
    print(p,extract_percentile_contour(f,(X,Y,None),p))
print(extract_percentile_contour(np.stack([f,f*2]),(np.stack([X,X]),np.stack([Y,Y]),np.stack([X,X])),0.5,level=1))
print(extract_percentile_contour(f,(np.arange(3)*2.,np.arange(2)*3.,None),0.5))
