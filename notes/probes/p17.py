import numpy as np, time, itertools, multiprocessing as mp, os, logging
from bldfm.config_parser import parse_config_dict
import bldfm.interface as bi
from bldfm.interface import run_bldfm_parallel
def mk(nt,ns):
    return parse_config_dict({"domain":{"nx":8,"ny":6,"xmax":80.,"ymax":60.,"nz":4,"modes":[8,6],"ref_lat":50.,"ref_lon":10.,"halo":20.0},
      "towers":[{"name":"t%d"%i,"lat":50.0001+0.0001*i,"lon":10.0002+0.0002*i,"z_m":5.+i} for i in range(nt)],
      "met":{"ustar":[0.3+0.1*i for i in range(ns)],"wind_dir":[10.+50*i for i in range(ns)],"mol":-50.},
      "solver":{"footprint":True,"precision":"double"}})
c=mk(2,2)
orig=bi.run_bldfm_single
ref={t.name:[orig(c,t,i) for i in range(2)] for t in c.towers}
tasks=[(t.name,i) for t in c.towers for i in range(2)]
def feasible(N,W):
    out=[]
    def rec(nxt,running,done):
        while nxt<N and len(running)<W: running=running|{nxt}; nxt+=1
        if not running: out.append(done); return
        for t in sorted(running): rec(nxt,running-{t},done+(t,))
    rec(0,frozenset(),())
    return out
ctr=mp.Value('i',0); log=mp.Array('d',16); starts=mp.Array('d',16)
state={}
def gated(config,tower,met_index=0,**kw):
    tid=tasks.index((tower.name,met_index))
    starts[tid]=time.time()
    r=orig(config,tower,met_index=met_index,**kw)
    pos=state["order"].index(tid)
    t0=time.time()
    while ctr.value!=pos:
        if time.time()-t0>20: raise RuntimeError("gate timeout")
        time.sleep(0.001)
    time.sleep(0.015)
    log[tid]=time.time()
    with ctr.get_lock(): ctr.value+=1
    return r
bi.run_bldfm_single=gated
tot=0
for W in (1,2,3,5):
    orders=feasible(4,W)
    t=time.time(); okc=0
    for o in orders:
        state["order"]=list(o); ctr.value=0
        r=run_bldfm_parallel(c,max_workers=W,parallel_over="both")
        obs=tuple(int(i) for i in np.argsort([log[i] for i in range(4)]))
        ok=obs==o
        for nm in r:
            for i,x in enumerate(r[nm]): ok&=np.array_equal(x["flx"],ref[nm][i]["flx"]) and x["timestamp"]==i and x["tower_name"]==nm
        okc+=ok
    print("W",W,"orders",len(orders),"ok",okc,"time",round(time.time()-t,2))
