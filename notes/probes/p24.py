import numpy as np, itertools, logging
logging.disable(logging.CRITICAL)
from bldfm.solver import steady_state_transport_solver as S
from bldfm.pbl_model import vertical_profiles
import bldfm; print(bldfm.__file__)
z,prof0 = vertical_profiles(4, 10.0, (3.0,1.0), ustar=0.4, mol=-50.)
u,v,K,_,_=prof0; prof=(u,v,1.3*K,0.6*K,K)
rng=np.random.default_rng(0)
stats={}
def idx(n): return np.fft.fftfreq(n,1.0/n).round().astype(int)
worst_in=0; worst_out=0; worst_halo=0; worst_clamp=0
for nx,ny in itertools.product(range(3,9),range(3,9)):
  q0=rng.standard_normal((ny,nx)); dom=(10.*nx,15.*ny)
  for fp in (False,True):
    kw=dict(footprint=fp,meas_pt=(10.,15.) if fp else (0.,0.),precision='double')
    try: full=S(q0,z,prof,dom,[2,4],modes=(nx+nx%2+2,ny+ny%2+2),halo=0.0,**kw)
    except Exception as e: stats[("full-exc",fp)]=stats.get(("full-exc",fp),0)+1; continue
    Ff=[np.fft.fft2(a,axes=(1,2)) for a in full[1:]]
    for mx,my in itertools.product(range(2,13,2),range(2,13,2)):
        try: r=S(q0,z,prof,dom,[2,4],modes=(mx,my),halo=0.0,**kw)
        except Exception as e:
            stats[("exc",fp,type(e).__name__)]=stats.get(("exc",fp,type(e).__name__),0)+1; continue
        if r[1].shape!=(2,ny,nx): stats[("badshape",fp)]=stats.get(("badshape",fp),0)+1; continue
        stats[("ok",fp)]=stats.get(("ok",fp),0)+1
        if mx>nx and my>ny:
            worst_clamp=max(worst_clamp,max(np.abs(a-b).max() for a,b in zip(r[1:],full[1:])))
            continue
        if mx>nx or my>ny:
            continue  # mixed clamp: sets both equal -> full
        IX,IY=np.meshgrid(idx(nx),idx(ny))
        inside=(np.abs(IX)<mx/2)&(np.abs(IY)<my/2)
        outside=(np.abs(IX)>mx/2)|(np.abs(IY)>my/2)
        for a,Fa in zip(r[1:],Ff):
            F=np.fft.fft2(a,axes=(1,2)); sc=np.abs(Fa).max()
            worst_in=max(worst_in,np.abs(F-Fa)[:,inside].max()/sc)
            if outside.any(): worst_out=max(worst_out,np.abs(F)[:,outside].max()/sc)
print(stats); print("inside",worst_in,"outside",worst_out,"clamp",worst_clamp)
