import numpy as np, itertools
exec(open('p13.py').read().split("# C03 conservation")[0])
def nyq_filter(a):
    A=np.fft.fft2(a,axes=(-2,-1))
    if a.shape[-1]%2==0: A[...,:,a.shape[-1]//2]=0
    if a.shape[-2]%2==0: A[...,a.shape[-2]//2,:]=0
    return np.fft.ifft2(A,axes=(-2,-1)).real
# C06 translation
g,c,f=run(q0)
worst=0
for sx,sy in itertools.product(range(nx),range(ny)):
    g2,c2,f2=run(np.roll(q0,(sy,sx),axis=(0,1)))
    worst=max(worst,np.abs(np.roll(c,(sy,sx),axis=(1,2))-c2).max(),np.abs(np.roll(f,(sy,sx),axis=(1,2))-f2).max())
print("C06 source shift",worst)
g,c0,f0=run(q0,footprint=True,meas_pt=(0.,0.))
worst=0;worst2=0
for i,j in itertools.product(range(nx),range(ny)):
    g,c1,f1=run(q0,footprint=True,meas_pt=(i*dx,j*dy))
    worst=max(worst,np.abs(np.roll(f0,(j,i),axis=(1,2))-f1).max(),np.abs(np.roll(c0,(j,i),axis=(1,2))-c1).max())
    d=np.zeros((ny,nx)); d[j,i]=1.0
    g,cd,fd=run(d)
    # point reflection about (j,i): fp[j+a,i+b] = resp[j-a,i-b]
    refl=np.roll(fd[:,::-1,::-1],(2*j+1,2*i+1),axis=(1,2))
    worst2=max(worst2,np.abs(refl-f1).max())
print("C06 tower shift",worst,"reflection",worst2)
# recentre
g,c,f=run(q0)
worst=0
for i,j in itertools.product(range(nx),range(ny)):
    if i==0 and j==0: continue
    g,c1,f1=run(q0,meas_pt=(i*dx,j*dy))
    worst=max(worst,abs(f1[:,ny//2,nx//2]-f[:,j,i]).max(), np.abs(np.roll(f,(ny//2-j,nx//2-i),axis=(1,2))-f1).max())
print("C06 recentre",worst)
# C07 mirror x
pm=(-prof[0],prof[1],prof[2],prof[3],prof[4])
g,cm,fm_=run(q0[:,::-1],prof=pm)
# mirrored grid: x -> -x : index i -> (-i) mod nx
mir=lambda a: np.roll(a[...,::-1],1,axis=-1)
g,cm,fm_=run(mir(q0),prof=pm)
print("C07 mirror x", np.abs(nyq_filter(mir(c))-nyq_filter(cm)).max(), "unfiltered",np.abs(mir(c)-cm).max())
# axis swap
ps=(prof[1],prof[0],prof[3],prof[2],prof[4])
g,cs,fs=run(q0.T.copy(),dom=(dom[1],dom[0]),prof=ps)
print("C07 swap", np.abs(nyq_filter(np.swapaxes(c,1,2))-nyq_filter(cs)).max(), "unfiltered", np.abs(np.swapaxes(c,1,2)-cs).max())
# similarity: lengths & K by s
for s in (0.01,3.7,1000.):
    p2=(prof[0],prof[1],prof[2]*s,prof[3]*s,prof[4]*s)
    g,c2,f2=run(q0,dom=(dom[0]*s,dom[1]*s),prof=p2,z=z*s)
    p3=tuple(a*s for a in prof)
    g,c3,f3=run(q0,prof=p3)
    print("C07 scale",s,np.abs(c2-c).max()/np.abs(c).max(),np.abs(f2-f).max(),np.abs(c3*s-c).max()/np.abs(c).max(),np.abs(f3-f).max())
# C04
q1=rng.standard_normal((ny,nx)); q2=rng.standard_normal((ny,nx))
a,b=1.7,-0.3
r1=run(q1,srf_bg_conc=1.2);r2=run(q2,srf_bg_conc=-4.);r3=run(a*q1+b*q2,srf_bg_conc=a*1.2+b*-4.)
print("C04",np.abs(a*r1[1]+b*r2[1]-r3[1]).max(),np.abs(a*r1[2]+b*r2[2]-r3[2]).max())
