import numpy as np, os, shutil, collections, logging
from bldfm.solver import steady_state_transport_solver as S
from bldfm.pbl_model import vertical_profiles
from bldfm.cache import GreensFunctionCache
import bldfm.solver as bs
z,prof = vertical_profiles(6, 10.0, (3.0,1.0), ustar=0.4, mol=-50.)
q0=np.ones((6,8))
class C(GreensFunctionCache):
    def __init__(s,*a,**k): super().__init__(*a,**k); s.hits=0; s.misses=0
    def get(s,*a,**k):
        r=super().get(*a,**k)
        if r is None: s.misses+=1
        else: s.hits+=1
        return r
base=dict(srf_flx=q0,z=z,profiles=prof,domain=(80.,60.),levels=6,modes=(8,6),meas_pt=(20.,10.),footprint=True,halo=20.0,precision="double")
def call(cache,**ch):
    kw=dict(base); kw.update(ch); return S(cache=cache,**kw)
def same(a,b):
    return all(np.array_equal(x,y) and x.shape==y.shape for x,y in zip(a[0],b[0])) and np.array_equal(a[1],b[1]) and np.array_equal(a[2],b[2]) and a[1].shape==b[1].shape
variants={"levels":dict(levels=3),"levels_multi":dict(levels=[2,6]),"shape":dict(srf_flx=np.ones((12,16))),"analytic":dict(analytic=True),"bg":dict(srf_bg_conc=3.0),
 "halo":dict(halo=30.0),"haloNone":dict(halo=None),"modes":dict(modes=(4,4)),"meas":dict(meas_pt=(30.,10.)),"prec":dict(precision="single"),"dom":dict(domain=(160.,60.)),"flxvals":dict(srf_flx=2*q0)}
for nm,ch in variants.items():
    shutil.rmtree("cdir",ignore_errors=True); c=C("cdir")
    call(c)
    r=call(c,**ch); exp=call(None,**ch)
    print(nm,"stale!" if not same(r,exp) else "ok","hits",c.hits)
# default halo effectiveness
shutil.rmtree("cdir",ignore_errors=True); c=C("cdir")
call(c,halo=None); call(c,halo=None); print("default halo hits",c.hits,"files",len(os.listdir("cdir")))
# truncation
shutil.rmtree("cdir",ignore_errors=True); c=C("cdir"); exp=call(c)
fn=os.path.join("cdir",os.listdir("cdir")[0]); data=open(fn,"rb").read(); print("entry bytes",len(data))
out=collections.Counter()
for n in range(0,len(data)):
    open(fn,"wb").write(data[:n])
    try:
        r=call(C("cdir"))
        out["ok" if same(r,exp) else "WRONG"]+=1
    except Exception as e:
        out["EXC "+type(e).__name__]+=1
    
print(out)
