import numpy as np, warnings, logging
logging.disable(logging.CRITICAL)
from bldfm.pbl_model import vertical_profiles, psi, phi
from bldfm.ffm_kormann_meixner import _psiM,_phiC,_phiM
from scipy.integrate import quad
z,p=vertical_profiles(1,1.5,(3.,0.),ustar=0.1,mol=-5.)
z2,p2=vertical_profiles(1,1.5,(3.,0.),z0=float(z[0]),mol=-5.)
print(z,z2); print(p[0],p2[0]); print(p[4],p2[4])
z,p=vertical_profiles(8,10.,(3.,1.),ustar=0.4,mol=-50.)
z2,p2=vertical_profiles(8,10.,(3.,1.),z0=float(z[0]),mol=-50.)
print(np.max(np.abs(z-z2)), [np.max(np.abs(a-b)/np.abs(a).max()) for a,b in zip(p,p2)])
xs=np.concatenate([-np.logspace(-8,1,40),np.logspace(-8,1,40)])
zz=np.abs(xs)*10.; L=np.sign(xs)*10.
print("psi vs km", np.max(np.abs(psi(xs)-_psiM(zz,L))), "phi vs phiC", np.max(np.abs(phi(xs)-_phiC(zz,L))))
for x in (-3.,-0.5,-1e-3,1e-3,0.7,4.):
    I=quad(lambda s:(_phiM(np.array([abs(s)]),np.array([np.sign(s)]))[0]-1)/s,0,x)[0]
    print(x,psi(x),I)
