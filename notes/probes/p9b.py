import numpy as np
exec(open('p9.py').read().split("t=time.time()")[0])
def bearing_err2(c):
    r=run_bldfm_single(c,c.towers[0])
    X,Y,Z=r["grid"]; f=r["flx"]
    tx,ty=r["tower_xy"]
    R=min(c.domain.xmax,c.domain.ymax)/2*0.95
    w=((X-tx)**2+(Y-ty)**2<=R**2)
    f=f*w
    cx=(f*(X-tx)).sum(); cy=(f*(Y-ty)).sum()
    return np.degrees(np.arctan2(cx,cy))%360
for kw in (dict(),dict(mol=50.),dict(nx=32,ny=48,xmax=400.,ymax=600.),dict(closure="CONSTANT"),dict(nx=16,ny=16),dict(xmax=200,ymax=200),dict(nx=24,ny=16,xmax=300.,ymax=400.)):
    worst=0
    for wd in range(0,360,1):
        c=mk(float(wd),**kw)
        b=bearing_err2(c)
        e=abs((b-wd+180)%360-180)
        worst=max(worst,e)
    print(kw,"worst bearing err disc",worst)
