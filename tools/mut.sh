#!/bin/bash
# tools/mut.sh <patch-or-"revert:<commit>"> <check ids...>: apply a mutant to /repo, run quick checks, undo.
F='^(Traceback|  File|    |Exception ignored|RuntimeError: can.t create|WARNING conda)'
m="$1"; shift
cd /repo || exit 2
if [ -n "$(git status --porcelain)" ]; then echo "repo dirty"; exit 2; fi
if [[ "$m" == revert:* ]]; then git revert --no-commit "${m#revert:}" >/dev/null || exit 2; else git apply "$m" || exit 2; fi
for id in "$@"; do
  out=$(cd /verif && ./check "$id" --tier "${TIER:-quick}" 2>&1 | grep -v -E "$F"); 
  echo "$out" | grep -E "VIOLATION|KNOWN|HARNESS" | head -${NV:-3}; echo "$out" | grep -E "^$id (held|VIOLATED)"
done
cd /repo; if [[ "$m" == revert:* ]]; then git revert --abort 2>/dev/null || git reset -q --hard; else git checkout -- . ; fi
git status --porcelain
