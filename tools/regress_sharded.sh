#!/bin/bash
# tools/regress_sharded.sh <nshards> <outfile> [glob]: regress the seeded mutants (own property's quick check) in parallel shards,
# each shard on a private worktree of /repo (never /repo itself); one line per mutant in <outfile>
cd /verif
n="${1:-4}"; out="${2:-/tmp/regress_sharded.txt}"; glob="${3:-C*}"
: > "$out"
ls -d seeded/$glob | xargs -n1 basename > /tmp/regress_list.txt
for k in $(seq 0 $((n-1))); do
  ( awk -v n="$n" -v k="$k" 'NR % n == k' /tmp/regress_list.txt | while read m; do
      DETECT_REPO=/tmp/wt/detect$k tools/seeded.py detect "$m" 2>&1 | grep -E "^$m " | head -1 | cut -c1-150 >> "$out"
    done ) &
done
wait
for k in $(seq 0 $((n-1))); do git -C /repo worktree remove --force /tmp/wt/detect$k 2>/dev/null; done
git -C /repo worktree prune
