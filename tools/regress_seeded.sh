#!/bin/bash
# tools/regress_seeded.sh: apply every seeded mutant in turn, run the quick check of its own property, undo; one line per mutant.
cd /verif
for d in seeded/C*; do
  n=$(basename "$d")
  out=$(tools/seeded.py detect "$n" 2>&1 | grep -E "^$n " | head -1)
  echo "$out" | cut -c1-140
done
git -C /repo status --porcelain
