#!/bin/bash
# tools/run_all.sh [tier]: run every claimed check on the current tree, print one verdict line per check
cd "$(dirname "$0")/.." || exit 2
tier="${1:-quick}"; rc=0
for id in $(python3 -c "import json;print(' '.join(c['property_id'] for c in json.load(open('MANIFEST.json'))['checks']))"); do
  mkdir -p "${LOGDIR:-/tmp/run_all_logs}"; out=$(./check "$id" --tier "$tier" 2>"${LOGDIR:-/tmp/run_all_logs}/$id.$tier.err" | tee "${LOGDIR:-/tmp/run_all_logs}/$id.$tier.out"); code=$?
  echo "$out" | grep -E "^(VIOLATION|KNOWN-FINDING|HARNESS-ERROR)" | cut -c1-200
  echo "$out" | grep -E "^$id (held|VIOLATED)" || echo "$id exit=$code (no verdict line)"
  [ $code -ne 0 ] && rc=1
done
exit $rc
