#!/usr/bin/env python3
"""tools/mutants.py run NAME [CHECK ...]   apply catalogue mutant NAME to /repo, run the quick checks, undo
   tools/mutants.py suite NAME           apply, run the repository's test suite, undo
   tools/mutants.py list"""
import importlib.util
import os
import re
import subprocess
import sys

here = os.path.dirname(os.path.dirname(os.path.abspath(__file__)))
spec = importlib.util.spec_from_file_location("cat", os.path.join(here, "mutants", "catalogue.py"))
cat = importlib.util.module_from_spec(spec)
spec.loader.exec_module(cat)
NOISE = re.compile(r"^(Traceback|  File|    |Exception ignored|RuntimeError: can.t create|WARNING conda)")


def apply(m):
    name, props, f, old, new = m[:5]
    p = os.path.join("/repo", f)
    s = open(p).read()
    if s.count(old) != 1:
        raise SystemExit("%s: pattern occurs %d times in %s" % (name, s.count(old), f))
    s = s.replace(old, new)
    if len(m) > 5:
        o2, n2 = m[5]
        assert s.count(o2) >= 1
        s = s.replace(o2, n2, 1)
    open(p, "w").write(s)


def undo():
    subprocess.run(["git", "-C", "/repo", "checkout", "--", "."], check=True)


def clean():
    return subprocess.run(["git", "-C", "/repo", "status", "--porcelain"], capture_output=True, text=True).stdout.strip() == ""


def main():
    cmd = sys.argv[1]
    if cmd == "list":
        for m in cat.M:
            print(m[0], m[1])
        return
    names = [sys.argv[2]] if sys.argv[2] != "all" else [m[0] for m in cat.M]
    for name in names:
        m = [x for x in cat.M if x[0] == name][0]
        if not clean():
            raise SystemExit("repo dirty")
        apply(m)
        try:
            if cmd == "suite":
                r = subprocess.run("cd /repo && /venv/bin/python -m pytest -q -p no:cacheprovider --timeout=900 2>/dev/null | tail -3", shell=True, capture_output=True, text=True)
                print(name, "=>", r.stdout.strip().splitlines()[-1:])
            else:
                checks = sys.argv[3:] or m[1]
                for c in checks:
                    if not os.path.exists(os.path.join(here, "vf", "checks", c.lower() + ".py")):
                        print("%-20s %s: (check not built)" % (name, c))
                        continue
                    r = subprocess.run(["./check", c, "--tier", os.environ.get("TIER", "quick")], cwd=here, capture_output=True, text=True)
                    out = [l for l in r.stdout.splitlines() if not NOISE.match(l)]
                    verdict = [l for l in out if re.match(r"^C\d+ (held|VIOLATED)", l)]
                    first = [l for l in out if l.startswith("  violation")][:1]
                    harness = [l for l in out if l.startswith("HARNESS")][:1]
                    print("%-20s %s: exit=%d %s" % (name, c, r.returncode, (verdict or harness or ["?"])[0][:150]))
                    if first and os.environ.get("SHOW"):
                        print("      ", first[0][:300])
        finally:
            undo()


main()
