import json,sys
props={json.loads(l)['id']:json.loads(l) for l in open('/verif/properties.jsonl')}
pid=sys.argv[1]
wave=sys.argv[2] if len(sys.argv)>2 else ""
EMPH={"":"","w3":"""
ADDITIONAL REQUIREMENT FOR THIS ROUND (harder mutants wanted): 
  - Mutant A must be STATE- or HISTORY-dependent: it must only manifest after a particular sequence of earlier calls / earlier files on disk / earlier configuration of module-level or object state in the same process (or across processes through files), or under a particular ordering of concurrent work - a single call in a fresh process must still satisfy the property. Typical vehicles: a memo/cache with an incomplete key, a reused buffer, a module-level default that gets mutated, a lazily initialised global, a stale file, a result object that is shared instead of copied.
  - Mutant B must depend on an UNUSUAL BUT LEGITIMATE CLASS OF INPUTS that typical tests do not contain (think about dtypes, containers (tuple vs list vs ndarray), negative or zero or very large/small magnitudes, values exactly on a branch boundary, odd/prime sizes, non-contiguous or read-only arrays, descending or duplicated entries, unusual-but-valid option combinations), preferably via TWO cooperating code sites that each look fine alone.
  - Avoid the most obvious single-token edits in the most central formula; prefer changes in guards, defaults, index/slice arithmetic, dtype handling, caching and bookkeeping code.
""","w4":"""
ADDITIONAL REQUIREMENT FOR THIS ROUND (harder, DIFFERENT mutants wanted):
  - Earlier rounds already produced many mutants of the following kinds; do NOT produce these again: a memo/cache with an incomplete key; integer-dtype truncation through zeros_like / empty_like / np.array(int input); fftshift vs ifftshift on odd sizes; shifting the footprint by the requested halo instead of the padded whole cells; sorting / un-sorting the output levels; `x or default` on a value that may be zero; results keyed by array identity; tower names sorted alphabetically; as_completed instead of ordered collection.
  - Mutant A must manifest only through an INTERACTION: between two different public functions / modules / drivers (state, files, settings or objects that one leaves behind and another consumes), between parent and worker processes (something inherited or not inherited across fork, per-worker state, worker count, strategy), between an object and its second use, or between a run and what the caller legitimately does with the returned objects. A single call of one function in a fresh process must still satisfy the property.
  - Mutant B must depend on a BOUNDARY or DEGENERATE class of legitimate inputs: values exactly on a branch boundary or symmetry point (equal, coincident, aligned, exact multiple, exactly zero wind component, neutral stratification, measurement point exactly on the domain edge), degenerate shapes (a single row or column, one output level given as a one-element list, the top level, one tower, one time step), extreme but valid magnitudes, or an option combination nobody tests together. Preferably via two cooperating code sites.
  - Prefer changes in guards, comparisons (< vs <=), index/slice arithmetic, loop bounds, default handling, bookkeeping, (de)serialisation and process/worker plumbing over edits of the central formulas.
""","w5":"""
ADDITIONAL REQUIREMENT FOR THIS ROUND (harder, DIFFERENT mutants wanted):
  - Earlier rounds already produced many mutants of the following kinds; do NOT produce these again: a memo/cache with an incomplete key or keyed by array identity; persistent/reused work arrays or buffers; integer-dtype truncation through zeros_like / empty_like / np.array(int input); in-place modification of the caller's argument arrays or of the configuration object; a shared mutable default dict; fftshift vs ifftshift on odd sizes; shifting the footprint by the requested halo instead of the padded whole cells; `//` vs int(/) pad widths; sorting / un-sorting the output levels; `x or default` on a value that may be zero; `and` for `or` in a guard; tower names sorted alphabetically; as_completed instead of ordered collection; returning internal arrays of a cache without copying.
  - Mutant A must break the property through the OUTPUT CONTRACT or the ACCEPT/REJECT behaviour rather than through the numbers of the main field in an ordinary call: shapes, dtypes, squeezing of singleton axes, the order of keys / list entries, labels, coordinates or metadata attached to the wrong item, outputs that alias each other (two returned arrays sharing memory, a returned grid that is a view of another result), wrong handling of one branch of an option (e.g. only footprint mode, only analytic mode, only multi-level output, only single precision, only one parallel strategy), accepting input that must be rejected, or rejecting / crashing on input that is legitimate.
  - Mutant B must be NUMERICAL-REGIME dependent: it must stay within the property's tolerance for ordinary magnitudes and show only in a particular legitimate regime - very fine or very coarse vertical grids, many layers, very large or very small domains or heights, strong stability or strong instability, very small roughness length, single precision, large mode counts, high aspect ratio, many towers / time steps - e.g. through a reordering of floating-point operations, a premature cast to lower precision, accumulation in the wrong precision, a tolerance / epsilon / clipping that is harmless at ordinary magnitudes, an approximation switched on beyond a threshold, or an overflow / underflow guard.
  - Prefer changes in dtype / precision handling, assembly of the returned objects, validation code and thresholds over edits of the central formulas.
"""}
p=props[pid]
wt="/tmp/wt/%s%s"%(pid,wave)
print(f"""You are helping to evaluate a verification effort by playing the adversary ("mutation author"). The project is BLDFM, a Python library (FFT + linear-shooting solver for the steady 3-D advection-diffusion equation producing atmospheric flux footprints, with MOST profiles, a config-driven interface with serial/parallel drivers, a disk cache, NetCDF I/O and a Kormann-Meixner reference model).

You have your OWN scratch git worktree of the repository at {wt} (detached HEAD). Work ONLY inside {wt} and write your deliverables to {wt}_out/ . Do NOT read, list or modify /repo or /verif (or anything else outside {wt}, {wt}_out and scratch files under {wt}_scratch) - your work must be independent of them.

How to run things (the sandbox has no network):
- Python: /venv/bin/python ; ALWAYS prefix commands with PYTHONPATH={wt}/src so that your worktree's sources are imported (check with: PYTHONPATH={wt}/src /venv/bin/python -c "import bldfm; print(bldfm.__file__)").
- The existing test suite: cd {wt} && PYTHONPATH={wt}/src /venv/bin/python -m pytest -q -p no:cacheprovider --timeout=900 2>/dev/null | tail -5   (takes about 1-2 minutes; on the unmodified tree it reports 135 passed, 4 skipped). Every bldfm process prints a harmless traceback about "can't create new thread at interpreter shutdown" at exit - ignore it.
- Do NOT use `git stash` (the stash is shared between all worktrees of this repository and other people are working in sibling worktrees); keep work in progress as diff files instead.
- Run scripts from a scratch directory such as {wt}_scratch (the library writes fftw_wisdom.pkl, .bldfm_cache/, logs/ into the current directory).

THE PROPERTY that is supposed to hold for this code base:

  [{pid}] {p['title']}
  {p['statement']}
  Quantified over: {p['quantifier']['text']}
  (code mainly involved: {', '.join(p['anchors']['files'])})

YOUR TASK: produce TWO different, realistic changes ("mutants") to the library source under {wt}/src/bldfm/ such that each change, on its own,
  (a) BREAKS the property above (some input / configuration / call history / schedule / crash point within the property's quantifier now violates it),
  (b) still imports/compiles and still passes the COMPLETE existing test suite (135 passed) - you must run the suite with the change applied and confirm this,
  (c) looks like a plausible bug a developer could introduce (an off-by-one, a swapped argument, a wrong index, a "harmless" optimisation or refactoring such as a cache / shortcut / reordered statement, a wrong default, an edge case handled wrongly), NOT sabotage guarded by a magic constant, and
  (d) needs something SPECIFIC to manifest - a particular multi-step sequence of calls, a particular interleaving / completion order / crash point, an unusual but legitimate input (odd sizes, non-default options, incommensurate values, descending orders, integer-typed inputs, particular parameter regimes ...), or two cooperating sites that each look fine alone - rather than something that any ordinary use would expose at once. Prefer subtle over blatant. The two mutants should break the property through different mechanisms / code sites.

{EMPH[wave]}
For EACH mutant (call them A and B) deliver in {wt}_out/ :
  - patchA.diff / patchB.diff : output of `git -C {wt} diff` with only that mutant applied (make sure it applies cleanly with `git apply` to a clean checkout of the same commit),
  - demoA.py / demoB.py : a small self-contained program (run as: PYTHONPATH=<tree>/src /venv/bin/python demoA.py) that exits with status 0 on the UNMODIFIED tree and with a non-zero status (with a message saying what went wrong) when the mutant is applied; it must test the property as stated (through the public API), not an implementation detail,
  - notesA.md / notesB.md : 5-15 lines: what was changed, why it breaks the property, exactly what is needed for it to manifest, and the output of the test suite run (the pytest summary line) with the mutant applied plus the demo's exit status with and without the mutant.
Before finishing, restore the worktree to a clean state (git -C {wt} checkout -- .) and verify both patches apply cleanly on it one at a time (git apply --check).
Your final answer should be a brief summary of the two mutants (one paragraph each) and confirm the verification steps you ran.""")
