#!/usr/bin/env python3
"""Regenerates MANIFEST.json from the per-check metadata in vf/checks/*.py
(MANIFEST dict in each module) - only checks whose module exists are claimed."""
import ast
import json
import os

here = os.path.dirname(os.path.dirname(os.path.abspath(__file__)))
props = [json.loads(l) for l in open(os.path.join(here, "properties.jsonl"))]
checks, na = [], []
for p in props:
    pid = p["id"]
    path = os.path.join(here, "vf", "checks", pid.lower() + ".py")
    meta = None
    if os.path.exists(path):
        tree = ast.parse(open(path).read())
        vals = {}
        for node in tree.body:
            if isinstance(node, ast.Assign) and len(node.targets) == 1 and isinstance(node.targets[0], ast.Name):
                if node.targets[0].id in ("LEVEL", "MANIFEST"):
                    vals[node.targets[0].id] = ast.literal_eval(node.value)
        if "MANIFEST" in vals:
            meta = vals
    if meta is None:
        na.append({"property_id": pid, "reason": "check not built yet (planned, see DESIGN.md section 3); not claimed until its machinery exists"})
        continue
    m = meta["MANIFEST"]
    checks.append(
        {
            "property_id": pid,
            "quick_cmd": "./check %s --tier quick" % pid,
            "thorough_cmd": "./check %s --tier thorough" % pid,
            "evidence_file": "evidence/%s.json" % pid,
            "replay_cmd_template": "./check %s --replay {path}" % pid,
            "engine": "vf-explorer",
            "level_claimed": {"category": meta["LEVEL"], "text": m["text"], "design_ref": "DESIGN.md section 3, %s" % pid},
            "level_note": m["note"],
            "technique": m["technique"],
        }
    )
man = {
    "version": 1,
    "setup_cmd": "./check --selftest-env",
    "hooks": {
        "guard": "BLDFM_VERIF",
        "enable": "no source hooks: every seam is a module attribute resolved at call time and is replaced by the harness in-process (BLDFM_VERIF=1 is exported by ./check for uniformity only)",
        "baseline_off_cmd": "cd /repo && /venv/bin/python -m pytest -ra -q -p no:cacheprovider --timeout=900 --continue-on-collection-errors",
        "source_commits": [],
        "add_only": True,
    },
    "engines": [
        {
            "name": "vf-explorer",
            "path": "vf/core.py",
            "serves_properties": [c["property_id"] for c in checks],
            "kind_free_text": "hand-written bounded-exhaustive explorer in Python: complete enumeration of finite case lattices / call histories / worker completion orders / crash images against the real library, 16-way fork fan-out, reference models in vf/oracles, replay files per violation",
        }
    ],
    "checks": checks,
    "not_applicable": na,
    "notes": "All checks run /venv/bin/python with /repo/src first on sys.path and assert that bldfm is imported from there. Exit 0 held, 1 violation (VIOLATION line), 2 harness error. known_findings.json lists recorded and fixed defects.",
}
with open(os.path.join(here, "MANIFEST.json"), "w") as f:
    json.dump(man, f, indent=1)
print("claimed:", [c["property_id"] for c in checks])
