#!/usr/bin/env python3
"""Seeded mutants written by independent sub-agents (see DESIGN.md section 8).

  tools/seeded.py confirm C05 A      verify a delivered mutant in a scratch worktree (demo passes clean / fails mutated,
                                    repository suite still 135 passed) and file it under seeded/C05A/
  tools/seeded.py detect C05A [ids]  apply seeded/C05A/patch.diff to /repo, run the quick checks (default: its property),
                                    undo, record the verdicts in seeded/C05A/meta.json
  tools/seeded.py table              print the detection table
"""
import json
import os
import re
import shutil
import subprocess
import sys
import time

HERE = os.path.dirname(os.path.dirname(os.path.abspath(__file__)))
NOISE = re.compile(r"^(Traceback|  File|    |Exception ignored|RuntimeError: can.t create|WARNING conda)")


def sh(cmd, **kw):
    return subprocess.run(cmd, shell=True, capture_output=True, text=True, **kw)


def confirm(pid, x):
    src = "/tmp/wt/%s_out" % pid  # pid may carry a wave suffix, e.g. C05w3
    name = "%s%s" % (pid, x)
    prop = pid[:3]
    patch, demo, notes = (os.path.join(src, f % x) for f in ("patch%s.diff", "demo%s.py", "notes%s.md"))
    for f in (patch, demo):
        if not os.path.exists(f):
            raise SystemExit("missing " + f)
    wt = "/tmp/wt/verify_%s" % name
    sh("git -C /repo worktree remove --force %s" % wt)
    r = sh("git -C /repo worktree add --detach %s HEAD" % wt)
    if r.returncode:
        raise SystemExit(r.stderr)
    scratch = wt + "_scratch"
    os.makedirs(scratch, exist_ok=True)
    env = dict(os.environ, PYTHONPATH=wt + "/src")
    meta = {"id": name, "property": prop, "author": "independent sub-agent (given only the property text and a scratch worktree)", "base_commit": sh("git -C /repo rev-parse HEAD").stdout.strip()}
    try:
        r0 = subprocess.run(["/venv/bin/python", demo], cwd=scratch, env=env, capture_output=True, text=True, timeout=1800)
        meta["demo_exit_clean"] = r0.returncode
        ra = sh("git -C %s apply %s" % (wt, patch))
        if ra.returncode:
            raise SystemExit("patch does not apply: " + ra.stderr)
        r1 = subprocess.run(["/venv/bin/python", demo], cwd=scratch, env=env, capture_output=True, text=True, timeout=1800)
        meta["demo_exit_mutated"] = r1.returncode
        meta["demo_output_mutated"] = "\n".join(l for l in (r1.stdout + r1.stderr).splitlines() if not NOISE.match(l))[-600:]
        t0 = time.time()
        rs = subprocess.run("/venv/bin/python -m pytest -q -p no:cacheprovider --timeout=900 2>/dev/null | tail -3", shell=True, cwd=wt, env=env, capture_output=True, text=True)
        meta["suite_with_mutant"] = rs.stdout.strip().splitlines()[-1] if rs.stdout.strip() else "?"
        meta["suite_wall_s"] = round(time.time() - t0)
        meta["files_changed"] = sh("git -C %s diff --stat | tail -1" % wt).stdout.strip()
    finally:
        sh("git -C /repo worktree remove --force %s" % wt)
        shutil.rmtree(scratch, ignore_errors=True)
    ok = meta["demo_exit_clean"] == 0 and meta["demo_exit_mutated"] != 0 and re.search(r"\b135 passed", meta["suite_with_mutant"]) and "failed" not in meta["suite_with_mutant"]
    meta["confirmed"] = bool(ok)
    print(json.dumps(meta, indent=1))
    if not ok:
        print("NOT CONFIRMED - not filed")
        return 1
    d = os.path.join(HERE, "seeded", name)
    os.makedirs(d, exist_ok=True)
    shutil.copy(patch, os.path.join(d, "patch.diff"))
    shutil.copy(demo, os.path.join(d, "demo.py"))
    if os.path.exists(notes):
        shutil.copy(notes, os.path.join(d, "notes.md"))
        meta["needs_to_manifest"] = "see notes.md (author's description)"
    meta["what_i_ran"] = "tools/seeded.py confirm %s %s: scratch worktree of /repo HEAD; demo on clean tree (exit %d); git apply; demo on mutated tree (exit %d); full repository suite with the mutant (%s); worktree removed" % (
        pid, x, meta["demo_exit_clean"], meta["demo_exit_mutated"], meta["suite_with_mutant"])
    json.dump(meta, open(os.path.join(d, "meta.json"), "w"), indent=1)
    return 0


DETECT_REPO = os.environ.get("DETECT_REPO", "/tmp/wt/detect")  # several regressions can run side by side, each on its own worktree


def _detect_repo():
    """a private worktree of /repo at /repo's HEAD: mutants are applied THERE (VERIF_REPO), never to /repo itself, so that
    the registered checks and the evidence always come from the real tree and several things can go on at once"""
    head = sh("git -C /repo rev-parse HEAD").stdout.strip()
    if not os.path.isdir(DETECT_REPO):
        r = sh("git -C /repo worktree add --detach %s HEAD" % DETECT_REPO)
        if r.returncode:
            raise SystemExit(r.stderr)
    sh("git -C %s checkout -q --detach %s" % (DETECT_REPO, head))
    sh("git -C %s reset -q --hard %s" % (DETECT_REPO, head))
    return DETECT_REPO


def detect(name, checks):
    d = os.path.join(HERE, "seeded", name)
    meta = json.load(open(os.path.join(d, "meta.json")))
    checks = checks or [meta["property"]]
    repo = _detect_repo()
    r = sh("git -C %s apply %s" % (repo, os.path.join(d, "patch.diff")))
    if r.returncode:
        raise SystemExit("apply failed: " + r.stderr)
    det = meta.setdefault("detection", {})
    try:
        for c in checks:
            tier = os.environ.get("TIER", "quick")
            rr = subprocess.run(["./check", c, "--tier", tier], cwd=HERE, capture_output=True, text=True, env=dict(os.environ, VERIF_EVIDENCE_DIR="/tmp/verif_mutant_evidence", VERIF_REPO=repo))
            out = [l for l in rr.stdout.splitlines() if not NOISE.match(l)]
            verdict = [l for l in out if re.match(r"^C\d+ (held|VIOLATED)", l)] or [l for l in out if l.startswith("HARNESS")] or ["?"]
            first = [l.strip() for l in out if l.startswith("  violation")][:2]
            det["%s/%s" % (c, tier)] = {"exit": rr.returncode, "verdict": verdict[0][:160], "first_violations": [f[:400] for f in first]}
            print("%-6s %s[%s]: exit=%d %s" % (name, c, tier, rr.returncode, verdict[0][:120]))
            for f in first[:1]:
                print("        ", f[:260])
    finally:
        sh("git -C %s checkout -- ." % repo)
        sh("git -C %s clean -fdq" % repo)
    json.dump(meta, open(os.path.join(d, "meta.json"), "w"), indent=1)


def table():
    root = os.path.join(HERE, "seeded")
    for name in sorted(os.listdir(root)):
        mp = os.path.join(root, name, "meta.json")
        if not os.path.exists(mp):
            continue
        m = json.load(open(mp))
        det = m.get("detection", {})
        cells = ["%s:%s" % (k, "CAUGHT" if v["exit"] == 1 else ("missed" if v["exit"] == 0 else "harness-error")) for k, v in det.items()]
        print("%-6s %-5s %s | %s" % (name, m["property"], m.get("files_changed", "")[:50], ", ".join(cells)))


if __name__ == "__main__":
    cmd = sys.argv[1]
    if cmd == "confirm":
        sys.exit(confirm(sys.argv[2], sys.argv[3]))
    elif cmd == "detect":
        detect(sys.argv[2], sys.argv[3:])
    else:
        table()
