#!/bin/bash
# tools/wave.sh <suffix> [old_verif_dir]: process one wave of sub-agent mutants delivered under /tmp/wt/C??<suffix>_out
#   1. remove the agents' worktrees  2. confirm every mutant in a scratch worktree (8 at a time)
#   3. first-run verdicts against a frozen copy of /verif (default /tmp/verif_old)  4. record them in seeded/*/meta.json
suf="$1"; old="${2:-/tmp/verif_old}"
cd /repo || exit 2
for d in /tmp/wt/C??${suf}; do [ -d "$d" ] && git worktree remove --force "$d" 2>/dev/null; rm -rf "${d}_scratch"; done
git worktree prune
cd /verif
n=0
for o in /tmp/wt/C??${suf}_out; do
  id=$(basename "$o" _out)
  for x in A B; do
    [ -f "$o/patch$x.diff" ] || { echo "$id$x: no patch delivered"; continue; }
    tools/seeded.py confirm "$id" "$x" > "/tmp/confirm_$id$x.log" 2>&1 &
    n=$((n+1)); if [ $((n % 8)) -eq 0 ]; then wait; fi
  done
done
wait
grep -L '"confirmed": true' /tmp/confirm_C??${suf}[AB].log 2>/dev/null | sed 's/^/NOT CONFIRMED: /'
[ -d "$old" ] || { echo "no frozen copy at $old - skipping first-run verdicts"; exit 0; }
# first-run verdicts: the frozen copy of the checks against a private worktree carrying the mutant (never /repo itself)
mr=/tmp/wt/firstrun
[ -d "$mr" ] || git -C /repo worktree add --detach "$mr" HEAD >/dev/null 2>&1
git -C "$mr" checkout -q --detach "$(git -C /repo rev-parse HEAD)"; git -C "$mr" reset -q --hard
for d in /verif/seeded/C??${suf}[AB]; do
  nme=$(basename "$d"); p=${nme:0:3}
  git -C "$mr" apply "$d/patch.diff" || { echo "$nme apply-failed"; continue; }
  out=$(cd "$old" && VERIF_REPO="$mr" VERIF_EVIDENCE_DIR=/tmp/verif_mutant_evidence ./check "$p" --tier quick 2>/dev/null | grep -E "^$p (held|VIOLATED)|^HARNESS" | head -1)
  git -C "$mr" checkout -- .; git -C "$mr" clean -fdq
  echo "$nme $out" | cut -c1-110
  python3 - "$d/meta.json" "$p" "$out" <<'PY'
import json,sys
m=json.load(open(sys.argv[1])); w=sys.argv[3].split()
m["first_run_before_strengthening"]={"check":sys.argv[2],"verdict":(w[1] if len(w)>1 else "?")}
json.dump(m,open(sys.argv[1],"w"),indent=1)
PY
done
