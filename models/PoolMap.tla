---- MODULE PoolMap ----
(* A FIFO worker pool as used by concurrent.futures.ProcessPoolExecutor.map:
   N tasks submitted in order 1..N, W worker slots.  A task starts as soon as a slot is
   free and all earlier tasks have started (Start is urgent); a running task may finish
   at any time.  `done' is a history variable: every terminal state carries one complete
   completion order, so the terminal states of the state graph are exactly the feasible
   completion orders.  Each of them is replayed on the real executor by the C14 harness. *)
EXTENDS Naturals, Sequences, FiniteSets
CONSTANTS N, W
VARIABLES nxt, running, done
vars == <<nxt, running, done>>
Init == /\ nxt = 1 /\ running = {} /\ done = <<>>
CanStart == nxt <= N /\ Cardinality(running) < W
Start == /\ CanStart
         /\ running' = running \cup {nxt} /\ nxt' = nxt + 1 /\ UNCHANGED done
FinishT(t) == /\ ~CanStart /\ t \in running
              /\ running' = running \ {t} /\ done' = Append(done, t) /\ UNCHANGED nxt
Finish == \E t \in running : FinishT(t)
Next == Start \/ Finish
Spec == Init /\ [][Next]_vars
\* a task can only complete after it has been dispatched, dispatch is in submission order
FifoDispatch == \A i \in 1..Len(done) : done[i] < nxt
\* never more than W tasks in flight, no task both running and done
SlotBound == Cardinality(running) <= W
NoDouble == \A i \in 1..Len(done) : done[i] \notin running /\ \A j \in 1..Len(done) : (i # j) => done[i] # done[j]
====
